"""
C18 tables (DESIGN.md 3.1). They are read by MEANING, not by the shape of the source: `extract/probe_c18.py` imports the
package of the working tree in a separate interpreter, runs `Shelxfile.read_string()`, `SymmetryElement.to_cif()` and
`Shelxfile.to_cif()` on a handful of small structures and reports what went through two instrumented library seams
(`string.Template`, `fractions.Fraction.limit_denominator`). From these observations:

  * how `SymmetryElement.to_cif` turns a translation into text
      mode 1  the translation is printed as `str(Fraction(t).limit_denominator(N))`          -> `fracLimit` = N
              N is the bound the code PASSED on every call seen (literal, named constant, default argument, computed
              constant … all the same here), and the hypothesis is then CHECKED: every operator string of the probes
              (72 operators: twelfths, sums with R/I/F centrings, decimals that are no simple fraction) must denote
              the operator's matrix rows with exactly `Fraction(t).limit_denominator(N)` as translation.
      mode 0  (the code before the repair) `_replace_float_values(self.to_shelxl()).lower()` with the ordered chain
              `val = val.replace(a, b)`                                                        -> `replList`
              read off the source with `ast` and likewise checked against every observed string.
      mode 2  neither hypothesis describes the strings observed (lost)
  * the CIF template: the text the export really hands to `string.Template` (wherever it comes from: the .tmpl
    file, another path, a module constant), its placeholders found with the class's own pattern (`templateTags`)
    and the `_data_name <placeholder>` lines (`templatePairs`, with the information whether the value is quoted),
    found by filling every placeholder with a marker and reading the filled text (`$name` and `${name}` alike).
  * the keys of the substitution dictionary (`dictKeys`): the keys of the mapping the export really passes to
    `Template.substitute` (a mapping and/or keyword arguments; sorted, the order of a dict means nothing). All probe structures (with/without ZERR, TEMP, SIZE, residual REMs,
    title, Q-peaks, anisotropic atoms) must give the same template, placeholders and key set; if they do not, or if the
    export does not fill exactly one `string.Template`, the tables are reported as lost.

If the probe cannot run at all (package does not import, no structure can be read) everything is lost; the file is
then written from the old syntactic reading where that still fits, so that the package builds.

Writes lean/ShelxModel/Extracted/C18.lean.
"""
import ast
import json
import re
import subprocess
import sys
from fractions import Fraction
from pathlib import Path

import extract

HERE = Path(__file__).resolve().parent
DSRMATH = 'shelxfile/misc/dsrmath.py'
CIFWRITE = 'shelxfile/cif/cif_write.py'
TEMPLATE = 'shelxfile/cif/cif_template.tmpl'

MIN_OPS = 40          # operators with a non-zero translation the probe must have seen before anything is concluded


def chars(s: str) -> str:
    def one(c):
        if c == "'":
            return "'\\''"
        if c == '\\':
            return "'\\\\'"
        return f"'{c}'"
    return '[' + ', '.join(one(c) for c in s) + ']'


# ------------------------------------------------------------------------------------------------------------
# the probe

def run_probe(repo: Path) -> dict:
    try:
        p = subprocess.run([sys.executable, str(HERE / 'probe_c18.py'), '--repo', str(repo)],
                           stdout=subprocess.PIPE, stderr=subprocess.PIPE, text=True, timeout=120,
                           env={'PATH': '/usr/bin:/bin', 'PYTHONDONTWRITEBYTECODE': '1', 'PYTHONHASHSEED': '0'})
    except (OSError, subprocess.TimeoutExpired) as e:
        return dict(error=f'probe_c18.py did not run: {e!r}', structures={}, ops=[])
    if p.returncode != 0:
        return dict(error=f'probe_c18.py failed: {p.stderr[-300:]}', structures={}, ops=[])
    try:
        return json.loads(p.stdout[p.stdout.index('{'):])
    except ValueError:
        return dict(error=f'probe_c18.py printed no result: {p.stdout[-200:]} {p.stderr[-200:]}', structures={}, ops=[])


# ------------------------------------------------------------------------------------------------------------
# operators

_NUM = re.compile(r'^(\d+/\d+|\d+\.?\d*|\.\d+)$')


def denote_row(s: str):
    """one component of a CIF xyz string -> (cx, cy, cz, translation as Fraction) or None; blanks and case ignored,
    a sum of signed terms each of which is x, y, z or an unsigned number n, n/d, n.ddd"""
    s = s.replace(' ', '').lower()
    if not s:
        return None
    terms = re.findall(r'([+-]?)([^+-]+)', s)
    if ''.join(a + b for a, b in terms) != s:
        return None
    c = dict(x=0, y=0, z=0)
    t = Fraction(0)
    for sign, body in terms:
        sg = -1 if sign == '-' else 1
        if body in c:
            c[body] += sg
        elif _NUM.match(body):
            try:
                t += sg * Fraction(body)
            except (ValueError, ZeroDivisionError):
                return None
        else:
            return None
    return c['x'], c['y'], c['z'], t


def denote_op(text: str):
    parts = text.split(',')
    if len(parts) != 3:
        return None
    rows = [denote_row(p) for p in parts]
    return None if any(r is None for r in rows) else rows


def _num(text: str):
    """repr() of an int or float of the probe -> the number"""
    return float(text) if any(ch in text for ch in '.enai') else int(text)


def _terms(row):
    out = ''
    for m, axis in zip(row, 'XYZ'):
        out += ('-' + axis) if m < 0 else ('+' + axis) if m else ''
    return out


def _signs(row):
    return tuple(-1 if m < 0 else 1 if m else 0 for m in row)


def legacy_repl(repo: Path):
    """the replacement chain of the original `_replace_float_values` (syntactic; only used as a HYPOTHESIS that is
    then checked against the observed strings) -> list of (old, new) or None"""
    try:
        tree = extract.parse(repo, DSRMATH)
    except (OSError, SyntaxError):
        return None
    cls = extract.find(tree, 'SymmetryElement')
    fn = extract.find(cls, '_replace_float_values') if cls is not None else None
    if fn is None:
        return None
    repl = []
    for st in fn.body:
        if isinstance(st, ast.Expr) and isinstance(st.value, ast.Constant):
            continue  # docstring
        if isinstance(st, ast.Return):
            continue
        ok = (isinstance(st, (ast.Assign, ast.AugAssign)) and isinstance(st.value, ast.Call)
              and isinstance(st.value.func, ast.Attribute) and st.value.func.attr == 'replace'
              and len(st.value.args) == 2 and all(isinstance(a, ast.Constant) and isinstance(a.value, str) for a in st.value.args))
        if not ok:
            return None
        repl.append((st.value.args[0].value, st.value.args[1].value))
    return repl


def read_ops(probe: dict, repo: Path):
    """-> (mode, limit, replacement list, lost-message or None)"""
    if probe.get('error'):
        return 2, 0, [], 'SymmetryElement.to_cif: ' + probe['error']
    ops = probe.get('ops', [])
    bad = [o for o in ops if 'error' in o]
    if bad:
        return 2, 0, [], f'SymmetryElement.to_cif could not be observed: {bad[0]["error"]} (structure {bad[0].get("structure")})'
    seen = []
    for o in ops:
        trans = [_num(t) for t in o['trans']]
        seen.append((o['rows'], trans, o['tstr'], o['text'], o['ld']))
    n_nonzero = sum(1 for _, trans, _, _, _ in seen if any(trans))
    if n_nonzero < MIN_OPS:
        return 2, 0, [], f'SymmetryElement.to_cif: only {n_nonzero} operators with a translation could be observed'
    bounds = []
    for *_, ld in seen:
        for call in ld:
            if call['N'] not in bounds:
                bounds.append(call['N'])
    if len(bounds) > 1:
        return 2, 0, [], f'SymmetryElement.to_cif: limit_denominator is called with different bounds {bounds[:4]}'
    if len(bounds) == 1:
        N = bounds[0]
        if not isinstance(N, int) or N < 1:
            return 2, 0, [], f'SymmetryElement.to_cif: limit_denominator called with the bound {N!r}, no positive integer'
        # the hypothesis "str(Fraction(t).limit_denominator(N))" against every string observed
        for rows, trans, _, text, ld in seen:
            want = [_signs(r) + ((Fraction(t).limit_denominator(N) if t else Fraction(0)),) for r, t in zip(rows, trans)]
            got = denote_op(text)
            if got is None or [tuple(g) for g in got] != want:
                return 2, 0, [], (f'SymmetryElement.to_cif calls limit_denominator({N}) but {text!r} for translations {trans} is not '
                                  f'the operator with Fraction(t).limit_denominator({N})')
        return 1, N, [], None
    # no call of Fraction.limit_denominator: the text replacement of the original code?
    repl = legacy_repl(repo)
    if repl is not None and all(a for a, _ in repl):
        for rows, trans, tstr, text, _ in seen:
            parts = []
            for r, t, ts in zip(rows, trans, tstr):
                s = (ts if t else '') + _terms(r)
                for a, b in repl:
                    s = s.replace(a, b)
                parts.append(s.lower())
            want = ', '.join(parts)
            if text != want and (denote_op(text) is None or denote_op(text) != denote_op(want)):
                break
        else:
            return 0, 0, repl, None
    return 2, 0, [], 'SymmetryElement.to_cif: neither text replacement nor Fraction.limit_denominator describes the strings it writes'


# ------------------------------------------------------------------------------------------------------------
# template and dictionary

_PAIR = re.compile(r"^\s*(_\S+)\s+(['\"]?)\x00(\w+)\x00(['\"]?)\s*$")


def read_template(probe: dict):
    """-> (tags, pairs, keys, list of lost-messages); tags/pairs/keys None when nothing could be observed"""
    if probe.get('error'):
        return None, None, None, ['CIF template/dictionary: ' + probe['error']]
    recs = []
    for name, st in probe.get('structures', {}).items():
        if 'error' in st:
            continue        # this structure could not be read / observed; the others decide
        subs = st.get('subs', [])
        if not subs and 'raise' in st:
            continue        # the export raised before it filled the template: seen by the check itself, not a table matter
        if len(subs) != 1:
            return None, None, None, [f'Shelxfile.to_cif fills {len(subs)} string.Template objects for structure {name!r} (expected one)']
        recs.append((name, subs[0]))
    if not recs:
        why = [f'{n}: {s.get("error") or s.get("raise")}' for n, s in probe.get('structures', {}).items()]
        return None, None, None, ['Shelxfile.to_cif could not be observed on any probe structure: ' + '; '.join(why)[:300]]
    name0, r0 = recs[0]
    msgs = []
    for name, r in recs:
        if not r['str_keys']:
            return None, None, None, [f'the substitution dictionary has keys that are no strings ({name})']
        if r['invalid']:
            msgs.append(f'the CIF template has {r["invalid"]} invalid placeholder(s)')
            break
        if r['text'] != r0['text']:
            return None, None, None, [f'Shelxfile.to_cif fills different templates for the structures {name0!r} and {name!r}']
        if sorted(r['keys']) != sorted(r0['keys']):
            diff = sorted(set(r['keys']) ^ set(r0['keys']))
            return None, None, None, [f'the keys of the substitution dictionary depend on the structure ({name0!r} vs {name!r}): {diff[:6]}']
    pairs = []
    for line in r0['filled'].splitlines():
        m = _PAIR.match(line)
        if m:
            pairs.append((m.group(1), m.group(3), bool(m.group(2)) and m.group(2) == m.group(4)))
    return list(r0['tags']), pairs, sorted(r0['keys']), msgs


# ------------------------------------------------------------------------------------------------------------
# the old syntactic reading: only to write a well-formed file when the probe could not run (the tables are reported as
# lost in that case whatever this finds)

def static_template(repo: Path):
    text = (repo / TEMPLATE).read_text()
    tags = re.findall(r'\$\{(\w+)\}|\$(\w+)', text)
    tags = [a or b for a, b in tags]
    pairs = []
    for line in text.splitlines():
        m = re.match(r"^\s*(_\S+)\s+('?)\$\{(\w+)\}('?)\s*$", line)
        if m:
            pairs.append((m.group(1), m.group(3), bool(m.group(2)) and bool(m.group(4))))
    return tags, pairs


def static_dict_keys(repo: Path):
    tree = extract.parse(repo, CIFWRITE)
    cls = extract.find(tree, 'CifFile')
    if cls is None:
        return []
    ms = {n.name: n for n in cls.body if isinstance(n, ast.FunctionDef)}
    keys = []
    for f in ms.values():
        for n in ast.walk(f):
            if isinstance(n, ast.Subscript) and isinstance(n.ctx, ast.Store) and isinstance(n.slice, ast.Constant) \
                    and isinstance(n.slice.value, str) and n.slice.value not in keys:
                keys.append(n.slice.value)
            if isinstance(n, ast.Dict):
                for k in n.keys:
                    if isinstance(k, ast.Constant) and isinstance(k.value, str) and k.value not in keys:
                        keys.append(k.value)
    return sorted(keys)


def render(mode, limit, repl, tags, pairs, keys) -> str:
    L = [extract.HEADER, 'namespace Shelx.Extracted.C18\n']
    L.append('/-- how `SymmetryElement.to_cif` prints a translation: 0 = text replacement on `str(float)`,\n'
             '    1 = `Fraction(t).limit_denominator(fracLimit)`, 2 = not recognised -/')
    L.append(f'def opMode : Nat := {mode}')
    L.append(f'def fracLimit : Nat := {limit}')
    L.append('/-- `_replace_float_values`: ordered (old, new) text replacements -/')
    L.append('def replList : List (List Char × List Char) := ' + extract.lean_list(f'({chars(a)}, {chars(b)})' for a, b in repl))
    L.append('/-- every `${placeholder}` of cif_template.tmpl, in order of appearance -/')
    L.append('def templateTags : List String := ' + extract.lean_list(extract.lean_str(t) for t in tags))
    L.append('/-- the `_data_name  ${placeholder}` lines of the template: (data name, placeholder, value quoted) -/')
    L.append('def templatePairs : List (String × String × Bool) := ' +
             extract.lean_list(f'({extract.lean_str(a)}, {extract.lean_str(b)}, {"true" if q else "false"})' for a, b, q in pairs))
    L.append('/-- the keys of the substitution dictionary built by `CifFile._cif_dict` -/')
    L.append('def dictKeys : List String := ' + extract.lean_list(extract.lean_str(k) for k in keys))
    L.append('\nend Shelx.Extracted.C18\n')
    return '\n'.join(L)


@extract.extractor
def c18_tables(repo, out):
    lost = []
    probe = run_probe(Path(repo))
    mode, limit, repl, msg = read_ops(probe, Path(repo))
    if msg:
        lost.append(dict(props=['C18'], what=msg))
    tags, pairs, keys, msgs = read_template(probe)
    lost += [dict(props=['C18'], what=m) for m in msgs]
    if tags is None:
        try:
            tags, pairs = static_template(Path(repo))
        except OSError:
            tags, pairs = [], []
        try:
            keys = static_dict_keys(Path(repo))
        except (OSError, SyntaxError):
            keys = []
    extract.write_if_changed(Path(out) / 'C18.lean', render(mode, limit, repl, tags, pairs, keys))
    return lost


def _fallback(out):
    extract.write_if_changed(Path(out) / 'C18.lean', render(2, 0, [], [], [], []))


c18_tables.props = ['C18']
c18_tables.fallback = _fallback

"""
C02 translator, part 2: guards (`Cond`, the atoms the Lean model evaluates), boolean formulas over them, and the
abstract values the reader computes with.
"""
from __future__ import annotations

import ast

from extract import lean_str, lean_list

NEG = {'Eq': 'Ne', 'Ne': 'Eq', 'Gt': 'Le', 'Le': 'Gt', 'Lt': 'Ge', 'Ge': 'Lt'}
ALL_MODES = {'.quiet', '.verbose', '.debug'}
KINDS = ('int', 'num', 'big', 'dnum', 'enum', 'word', 'sym')


class Cond:
    """one guard atom; `lean` is the Lean term, `neg` its negation.
    kinds that reach Lean: s p w (length of a list), mode, lastEq lastNe lastIn lastNotIn, flagOn flagOff, caught notCaught,
    restAlpha restNotAlpha, opaque.  Internal (never emitted): tok (a test of the loop token that is decided by its
    lexical class: args = (loop id, frozenset of classes for which it holds, text))"""

    def __init__(self, kind, *args):
        self.kind, self.args = kind, args

    def lean(self):
        k, a = self.kind, self.args
        if k in ('s', 'p', 'w'):
            return f'.{k}{a[0]} {a[1]}'
        if k == 'mode':
            return '.modeIn ' + lean_list(sorted(a[0]))
        if k in ('lastEq', 'lastNe', 'flagOn', 'flagOff', 'opaque'):
            return f'.{k} {lean_str(a[0])}'
        if k in ('notCaught', 'restAlpha', 'restNotAlpha'):
            return f'.{k} {a[0]}'
        if k == 'caught':
            return f'.caught {a[0]} ' + lean_list(list(a[1]))
        if k in ('lastIn', 'lastNotIn'):
            return f'.{k} ' + lean_list([lean_str(x) for x in a[0]])
        raise ValueError(k)

    def key(self):
        k, a = self.kind, self.args
        if k == 'mode':
            return (k, tuple(sorted(a[0])))
        if k == 'tok':
            return (k, a[0], tuple(sorted(a[1])))
        if k in ('lastIn', 'lastNotIn'):
            return (k, tuple(a[0]))
        if k == 'caught':
            return (k, a[0], tuple(a[1]))
        return (k,) + tuple(a)

    def neg(self):
        k, a = self.kind, self.args
        if k in ('s', 'p', 'w'):
            return Cond(k, NEG[a[0]], a[1])
        if k == 'mode':
            return Cond('mode', ALL_MODES - set(a[0]))
        if k == 'tok':
            return Cond('tok', a[0], frozenset(KINDS) - a[1], 'not:' + a[2])
        sw = {'lastEq': 'lastNe', 'lastNe': 'lastEq', 'flagOn': 'flagOff', 'flagOff': 'flagOn',
              'restAlpha': 'restNotAlpha', 'restNotAlpha': 'restAlpha', 'lastIn': 'lastNotIn', 'lastNotIn': 'lastIn'}
        if k in ('caught', 'notCaught'):
            return Cond('opaque', 'not:try-state')
        if k in sw:
            return Cond(sw[k], *a)
        t = a[0]
        return Cond('opaque', t[4:] if t.startswith('not:') else 'not:' + t)

    def __repr__(self):
        return f'Cond{self.key()}'


def contradictory(conds):
    """a guard list that can never hold (X together with not-X, or two different exact lengths …)"""
    keys = {c.key() for c in conds}
    for c in conds:
        if c.kind in ('caught', 'notCaught'):
            continue
        if c.neg().key() in keys:
            return True
    for lst in ('s', 'p', 'w'):
        lo, hi, eqs = 0, None, set()
        for c in conds:
            if c.kind != lst:
                continue
            op, n = c.args
            if op == 'Eq':
                eqs.add(n)
            elif op == 'Gt':
                lo = max(lo, n + 1)
            elif op == 'Ge':
                lo = max(lo, n)
            elif op == 'Lt':
                hi = n - 1 if hi is None else min(hi, n - 1)
            elif op == 'Le':
                hi = n if hi is None else min(hi, n)
        if len(eqs) > 1:
            return True
        if hi is not None and lo > hi:
            return True
        if eqs and (next(iter(eqs)) < lo or (hi is not None and next(iter(eqs)) > hi)):
            return True
    ms = [set(c.args[0]) for c in conds if c.kind == 'mode']
    if ms and not set.intersection(*ms):
        return True
    return False


# ---- formulas: ('T',) ('F',) ('c', Cond) ('and', a, b) ('or', a, b); negation is pushed to the atoms --------------
T, F = ('T',), ('F',)


def f_atom(c):
    if c.kind == 'mode':
        if set(c.args[0]) == ALL_MODES:
            return T
        if not c.args[0]:
            return F
    return ('c', c)


def f_not(f):
    if f == T:
        return F
    if f == F:
        return T
    if f[0] == 'c':
        return f_atom(f[1].neg())
    if f[0] == 'and':
        return f_or(f_not(f[1]), f_not(f[2]))
    return f_and(f_not(f[1]), f_not(f[2]))


def f_and(a, b):
    if a == F or b == F:
        return F
    if a == T:
        return b
    if b == T:
        return a
    return ('and', a, b)


def f_or(a, b):
    if a == T or b == T:
        return T
    if a == F:
        return b
    if b == F:
        return a
    if a[0] == 'c' and b[0] == 'c' and a[1].kind == 'mode' and b[1].kind == 'mode':
        return f_atom(Cond('mode', set(a[1].args[0]) | set(b[1].args[0])))
    return ('or', a, b)


def first_atom(f):
    if f[0] == 'c':
        return f[1]
    if f[0] in ('and', 'or'):
        return first_atom(f[1]) or first_atom(f[2])
    return None


def assign(f, c, val):
    if f[0] == 'c':
        if f[1].key() == c.key():
            return T if val else F
        if f[1].neg().key() == c.key():
            return F if val else T
        return f
    if f[0] == 'and':
        return f_and(assign(f[1], c, val), assign(f[2], c, val))
    if f[0] == 'or':
        return f_or(assign(f[1], c, val), assign(f[2], c, val))
    return f


def xdnf(f):
    """mutually exclusive conjunctions (lists of Cond) whose disjunction is f — a decision tree on the atoms in the
    order they are evaluated"""
    if f == T:
        return [[]]
    if f == F:
        return []
    a = first_atom(f)
    return [[a] + r for r in xdnf(assign(f, a, True))] + [[a.neg()] + r for r in xdnf(assign(f, a, False))]


# ---- abstract values ---------------------------------------------------------------------------------------------

class AV:
    tracked = False        # derived from the token list / the parameter lists (a use the reader does not understand is lost)

    def key(self):
        return (type(self).__name__,) + tuple(sorted((k, repr(v)) for k, v in vars(self).items()))

    def __eq__(self, o):
        return isinstance(o, AV) and self.key() == o.key()

    def __hash__(self):
        return hash(self.key())

    def __repr__(self):
        return type(self).__name__ + '(' + ', '.join(f'{k}={v!r}' for k, v in vars(self).items()) + ')'


class Const(AV):
    def __init__(self, v):
        self.v = v


class Unk(AV):
    """a value the reader does not follow; `expr` (optional): the expression that defines it, with locals expanded"""

    def __init__(self, tracked=False, expr=None):
        self.tracked, self.expr = tracked, expr

    def key(self):
        return ('Unk', self.tracked, ast.dump(self.expr) if self.expr is not None else None)


class Toks(AV):
    """k[lo:hi] of the token list (k='s'), of the numbers (k='p') or of the words (k='w') of the line;
    alias: the list object itself (mutations are seen by everybody), not a copy"""
    tracked = True

    def __init__(self, k, lo=0, hi=None, alias=True, raw=True):
        self.k, self.lo, self.hi, self.alias = k, lo, hi, alias and lo == 0 and hi is None
        self.raw = raw         # False: a list of the same length whose elements are values computed from the tokens


class Sub(AV):
    """some elements of the list k, from position lo on (extended slices, filtered copies): only iteration is followed"""
    tracked = True

    def __init__(self, k, lo=0):
        self.k, self.lo = k, lo


class Elem(AV):
    """the token k[i] (or something computed from that one token: derived); i None: a position counted from the end"""

    def __init__(self, k, i, derived=False):
        self.k, self.i, self.derived = k, i, derived
        self.tracked = k == 's'


class LoopEl(AV):
    """the loop variable: each element of k[lo:hi] in turn; derived: something computed from that one token"""

    def __init__(self, k, lo, hi, lid, derived=False):
        self.k, self.lo, self.hi, self.lid, self.derived = k, lo, hi, lid, derived
        self.tracked = k == 's'


class LoopIdx(AV):
    """an index i that runs over the positions of k[lo:hi]"""
    tracked = True

    def __init__(self, k, lo, hi, lid):
        self.k, self.lo, self.hi, self.lid = k, lo, hi, lid


class TokVal(AV):
    """a value computed from the loop token and constants only: evaluated on representatives of each lexical class"""
    tracked = True

    def __init__(self, loop, node, binds):
        self.loop, self.node, self.binds = loop, node, binds      # loop: LoopEl; binds: name -> ('x',) or ('c', value)

    def key(self):
        return ('TokVal', self.loop.key(), ast.dump(self.node))


class Len(AV):
    tracked = True

    def __init__(self, k, lo, hi, add=0):
        self.k, self.lo, self.hi, self.add = k, lo, hi, add


class Bool(AV):
    def __init__(self, f):
        self.f = f

    def key(self):
        return ('Bool', repr(self.f))


class Join(AV):
    """''.join(s[lo:])"""
    tracked = True

    def __init__(self, lo):
        self.lo = lo


class Tup(AV):
    def __init__(self, items):
        self.items = list(items)
        self.tracked = any(i.tracked for i in self.items)

    def key(self):
        return ('Tup',) + tuple(i.key() for i in self.items)


class SelfV(AV):
    def __init__(self, kind, cls):
        self.kind, self.cls = kind, cls          # 'card' | 'parser' | 'other';  cls: ClassRef


class ShxV(AV):
    """the parser object seen from a card (shx / self.shx / self._shx)"""


class Inst(AV):
    """an instance of a class of the package (Atom(self), self.sfac_table …); flag: the parser attribute it lives in"""

    def __init__(self, cls, flag=None):
        self.cls, self.flag = cls, flag


class Meth(AV):
    def __init__(self, recv, owner, name):
        self.recv, self.owner, self.name = recv, owner, name      # owner: ClassRef of the defining class


class LocalFn(AV):
    """a function or lambda defined inside the function being read (a closure over its locals)"""

    def __init__(self, node):
        self.node = node

    def key(self):
        return ('LocalFn', id(self.node))


class Builtin(AV):
    def __init__(self, name):
        self.name = name


class Line(AV):
    """the text of the current line (or a piece of it that still starts with the keyword)"""

    def __init__(self, upper=False):
        self.upper = upper


class LineParts(AV):
    """line.split('!') / line.partition('=') …"""

    def __init__(self, upper=False):
        self.upper = upper


class Word(AV):
    """line[:4]"""


class Pref(AV):
    """line[:n] with n < 4: the first n characters of the keyword"""

    def __init__(self, n):
        self.n = n


class Last(AV):
    """the state variable that remembers the last header keyword (lastcard)"""


class Flag(AV):
    """a parser attribute whose truthiness the handlers test (self.frag, self.cell …)"""

    def __init__(self, name, cls=None):
        self.name, self.cls = name, cls


class ResList(AV):
    """self._reslist"""


class KwTest(AV):
    """a test of the keyword of the line: items = [('word'|'starts'|'atom', key)]"""

    def __init__(self, items, negated=False):
        self.items, self.negated = list(items), negated

    def key(self):
        return ('KwTest', tuple(self.items), self.negated)

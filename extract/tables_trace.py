"""
Tracing translator (extract/symtrace.py, extract/trace_run.py, extract/trace_c*.py): the numeric kernels of the
working tree are executed on symbolic numbers in a separate interpreter and written to
lean/ShelxModel/Extracted/<Cxx>Src.lean. A target that can no longer be traced is a lost message for its property
(the `src_…` theorems about it fail on the stand-in that is written instead).
"""
import json
import subprocess
import sys
from pathlib import Path

import extract

HERE = Path(__file__).resolve().parent


def _props():
    return sorted({p.stem.split('_')[1].upper() for p in HERE.glob('trace_c*.py')})


@extract.extractor
def traced(repo, out):
    p = subprocess.run([sys.executable, str(HERE / 'trace_run.py'), '--repo', str(repo), '--out', str(out)],
                       stdout=subprocess.PIPE, stderr=subprocess.PIPE, text=True, timeout=300,
                       env={'PATH': '/usr/bin:/bin', 'PYTHONDONTWRITEBYTECODE': '1', 'PYTHONHASHSEED': '0'})
    if p.returncode != 0:
        return [dict(props=_props(), what=f'trace_run.py failed: {p.stderr[-400:]}')]
    try:
        r = json.loads(p.stdout[p.stdout.index('{'):])
    except ValueError:
        return [dict(props=_props(), what=f'trace_run.py printed no result: {p.stdout[-200:]} {p.stderr[-200:]}')]
    return r.get('lost', [])


traced.props = _props()

"""
C02 translator, part 3: tests on *values* (not on the shape of the line).

The Lean model works on lexical classes of tokens; a test on the value of a parameter (`self.residue_number > 9999`,
`not self.d`, `len(self.atoms) % 2`) is opaque to it.  `ShelxModel/C02.lean` lists, by a canonical text, the opaque
tests that valid input never makes true (`assumed`; each is named in `ctx.assumptions` of the harness and met by the
generator by construction).  Comparing the *text* of the test in the source with that list breaks with every
respelling (`len(self.atoms) % 2 != 0` / `len(self.atoms) % 2` / a local that holds the number of atoms), so the test
is recognised by what it computes: it is evaluated on sample states of valid input (must be false on every one) and on
sample states the assumption excludes (must be true on every one).  A test that is recognised is written with the
canonical text of its assumption, anything else with its own text (and is then *not* assumed false by the model).
"""
from __future__ import annotations

import ast
from types import SimpleNamespace as NS

OK_NODES = (ast.Expression, ast.BoolOp, ast.BinOp, ast.UnaryOp, ast.Compare, ast.Call, ast.Attribute, ast.Name, ast.Constant,
            ast.Subscript, ast.Tuple, ast.List, ast.Load, ast.And, ast.Or, ast.Not, ast.USub, ast.UAdd, ast.Add, ast.Sub, ast.Mult,
            ast.Div, ast.Mod, ast.FloorDiv, ast.Eq, ast.NotEq, ast.Lt, ast.LtE, ast.Gt, ast.GtE, ast.In, ast.NotIn, ast.Is, ast.IsNot,
            ast.IfExp, ast.Slice)
OK_FUNCS = {'len': len, 'abs': abs, 'bool': bool, 'int': int, 'float': float, 'str': str, 'min': min, 'max': max, 'round': round}
OK_METHODS = {'strip', 'rstrip', 'lstrip', 'upper', 'lower', 'split', 'startswith', 'endswith', 'isdigit', 'isalpha', 'isspace'}


def ns(**kw):
    return NS(**kw)


def _self(**kw):
    return {'self': NS(**kw)}


ASSUMPTIONS = [
    # (canonical text, states of valid input, states the assumption excludes)
    ('self.residue_number < -999 or self.residue_number > 9999',
     [_self(residue_number=v) for v in (-999, -5, 0, 1, 4, 5, 100, 9999)],
     [_self(residue_number=v) for v in (-1000, 10000, 123456, -5000)]),
    ('len(self.unit.values) != len(self.sfac_table.elements_list)',
     [_self(unit=ns(values=[1.0] * n), sfac_table=ns(elements_list=['C'] * n)) for n in (1, 2, 3, 4)],
     [_self(unit=ns(values=[1.0] * a), sfac_table=ns(elements_list=['C'] * b)) for a, b in ((1, 2), (3, 2), (0, 1), (4, 1))]),
    ('len(self.atoms) % 2 != 0',
     [_self(atoms=['C1'] * n) for n in (0, 2, 4, 6)],
     [_self(atoms=['C1'] * n) for n in (1, 3, 5)]),
    ('0.0001 < self.d <= self.s',
     [_self(d=d, s=s) for d, s in ((1.5, 0.02), (2.5, 0.75), (0.75, 0.35), (1.5123, 0.02), (1.25, 0.04))],
     [_self(d=d, s=s) for d, s in ((0.01, 0.02), (0.02, 0.02), (0.0002, 0.04))]),
    ('not:self.d',
     [_self(d=d) for d in (1.5, 2.5, 0.75, -1.2)],
     [_self(d=d) for d in (0, 0.0)]),
    ('not:self.DN',
     [_self(DN=d) for d in (2, 3, 1, 2.0)],
     [_self(DN=d) for d in (0, 0.0)]),
    ('not:line.strip()',
     [dict(line=l) for l in ('CELL 0.71073 10.1 11.2 12.3 90 95.5 90', 'C1 1 0.1 0.2 0.3', 'XYZ', 'Q1 1 0.1 0.2 0.3 11.0 0.05 1.2')],
     [dict(line=l) for l in ('', '   ', '\t')]),
]

# lines as the generator of the harness writes them (any keyword, any legal form): a test of the *text* of the line
# (a regular expression that recognises the residual summary SHELXL writes into REM lines …) that is false on all of
# them selects lines the model does not talk about
SAMPLE_LINES = [
    'REM', 'REM C1', 'REM C1 -x, 3 2.5 C2', 'REM c02 by-construction file', 'REM sentinels follow the line under test',
    'TITL c02 CELL in P2(1)', 'CELL 0.71073 10.1 11.2 12.3 90 95.5 90', 'ZERR 4 0.001 0.002 0.003 0 0.01 0', 'LATT -1',
    'SYMM -x, 1/2+y, -z', 'SFAC C H O', 'UNIT 8 16 4', 'L.S. 10', 'PLAN 5', 'FVAR 0.51234 0.61234 0.71234',
    'C1 1 0.11000 0.21000 0.31000 11.00000 0.04100', 'DFIX 1.5123 C1 C2', 'HKLF 4', 'END', 'WGHT 0.0512 0.3456',
    'Q1 1 0.12340 0.23450 0.34560 11.00000 0.05 1.23', 'RESI 4 TOL', 'PART 2 21.5', 'AFIX 43', 'TEMP -123.5', 'OMIT -2 3 4',
    'EQIV $1 -x, 1-y, -z', 'SADI_2 0.75 C1 C2 O1 C3', 'HFIX 43 2.5 0.75 C1', 'ACTA 2.5 NOHKL', 'LAUE Mo', 'MOLE 3', 'TIME 2.5',
    'FRAG 17', 'FEND', 'ANIS', 'BOND $H', 'CONF', 'HTAB', 'SIZE 2.5 0.75 0.35', 'TWIN 0 1 0 1 0 0 0 0 -1 2', '+c02_inc_a.ins',
]


def whitelisted(node):
    for n in ast.walk(node):
        if not isinstance(n, OK_NODES):
            return False
        if isinstance(n, ast.Call):
            if isinstance(n.func, ast.Name):
                if n.func.id not in OK_FUNCS:
                    return False
            elif isinstance(n.func, ast.Attribute):
                if n.func.attr not in OK_METHODS:
                    return False
            else:
                return False
            if n.keywords:
                return False
        if isinstance(n, ast.Attribute) and n.attr.startswith('__'):
            return False
        if isinstance(n, ast.Name) and n.id.startswith('__'):
            return False
    return True


def _eval(code, state):
    return bool(eval(code, {'__builtins__': {}}, dict(OK_FUNCS, **state)))      # noqa: S307 — whitelisted expression only


def match_assumption(expr):
    """canonical text of the assumption that `expr` (an ast expression, locals expanded) tests, or None"""
    if not whitelisted(expr):
        return None
    try:
        code = compile(ast.fix_missing_locations(ast.Expression(body=expr)), '<test>', 'eval')
    except (SyntaxError, ValueError, TypeError):
        return None
    for text, valid, excluded in ASSUMPTIONS:
        try:
            if any(_eval(code, s) for s in valid):
                continue
            if not all(_eval(code, s) for s in excluded):
                continue
        except Exception:
            continue
        return text
    return None


def neg_text(t):
    return t[4:] if t.startswith('not:') else 'not:' + t


def known(text):
    """an opaque test whose truth the model knows: one of the assumptions (false) or the negation of one (true)"""
    texts = {a[0] for a in ASSUMPTIONS}
    return text in texts or neg_text(text) in texts

"""
C01 tables, regenerated from the working tree on every run (DESIGN.md 3.1):

  * the four layouts Atom.__str__ prints (alignment, width, precision per field, literal blanks between the fields)
                                                                        -> isoFmt / anisFmt / qpeakFmt / fragFmt
  * the number of values FVARs.__str__ puts on one line                  -> fvarChunk
  * the classes of shelx/cards.py (and Atom) whose str() is not the stored text -> strOverrides
  * the constant U value Atom.__str__ prints for a Q-peak                -> qpeakUConst

They are read BY MEANING (extract/probe_c01.py, run in a separate interpreter that imports the package from the tree
under test): the values of a probe file are replaced by spies that record the format specification they are printed
with (whatever way the code spells the formatting), every format string found anywhere in the package is a further
candidate, and a reading is accepted only if it reproduces `str(atom)` of the unmodified code character by character
on probe atoms with values of very different lengths. The FVAR chunk is measured; whether a class computes its text
is decided on an instance that has only the state every card has. Only if that interpreter cannot be used at all (the package does not import) the
`ast` pattern matcher below reads the source text, and the tables are reported as lost in any case.

An edited precision, width, chunk size or a new printer override changes the generated Lean file, and the
theorems of ShelxProps/C01.lean that mention it (`extracted_layout`, `extracted_overrides`, `fvar_chunk_pos`) are
re-checked against what the code says now.
"""
import ast
import json
import re
import string
import subprocess
import sys
from pathlib import Path

import extract

HERE = Path(__file__).resolve().parent

SPEC_RE = re.compile(r'^(?P<align>[<>^])?(?P<width>\d+)?(?:\.(?P<prec>\d+))?(?P<type>[sfdgn])?$')

def parse_format(fmt: str):
    """'{:<5s}{:>2}{:>12.6f} ...' -> list of Lean Piece terms; None if a literal is not blank-only or a spec is unknown"""
    pieces = []
    for lit, field, spec, conv in string.Formatter().parse(fmt):
        if lit:
            if lit.strip(' '):
                return None
            pieces.append(f'.lit {len(lit)}')
        if field is None:
            continue
        if field != '' or conv:
            return None
        m = SPEC_RE.match(spec or '')
        if not m:
            return None
        align = m.group('align')
        typ = m.group('type')
        width = int(m.group('width') or 0)
        prec = m.group('prec')
        if align == '^':
            return None
        if typ in ('g', 'n'):
            return None
        # default alignment: strings left, numbers right; we cannot know the argument type for a bare '{:>2}',
        # so an explicit alignment is required unless the type is given
        if align is None:
            if typ == 's':
                align = '<'
            elif typ in ('f', 'd'):
                align = '>'
            else:
                return None
        if typ == 'f' and prec is None:
            prec = '6'
        left = 'true' if align == '<' else 'false'
        p = f'(some {int(prec)})' if prec is not None else 'none'
        pieces.append(f'.fld {left} {width} {p}')
    return pieces


def class_string_constants(cls: ast.ClassDef):
    out = {}
    for n in cls.body:
        if isinstance(n, ast.Assign) and len(n.targets) == 1 and isinstance(n.targets[0], ast.Name):
            try:
                v = ast.literal_eval(n.value)
            except Exception:
                continue
            if isinstance(v, str):
                out[n.targets[0].id] = v
    return out


def str_overrides(tree: ast.Module):
    """names of classes whose str() is computed (not the stored text)"""
    classes = {n.name: n for n in tree.body if isinstance(n, ast.ClassDef)}

    def defines(c, meth):
        return any(isinstance(m, ast.FunctionDef) and m.name == meth for m in c.body)

    def bases(c):
        return [b.id for b in c.bases if isinstance(b, ast.Name)]

    def inherits_str(c, seen=()):
        for b in bases(c):
            if b in classes and b not in seen:
                if defines(classes[b], '__str__') or inherits_str(classes[b], seen + (b,)):
                    return True
        return False

    out = []
    for name, c in classes.items():
        if name in ('Command', 'Restraint'):
            continue
        if defines(c, '__str__') or (defines(c, '__repr__') and not inherits_str(c)):
            out.append(name)
    return sorted(out)


def find_chunk(tree: ast.Module):
    f = extract.find(tree, 'FVARs.__str__')
    if f is None:
        return None
    for n in ast.walk(f):
        if isinstance(n, ast.Call) and isinstance(n.func, ast.Name) and n.func.id == 'chunks' and len(n.args) == 2 \
                and isinstance(n.args[1], ast.Constant) and isinstance(n.args[1].value, int):
            return n.args[1].value
    return None


def qpeak_const(atom_tree: ast.Module):
    """the constant that Atom.__str__ passes as U to the Q-peak format (today 0.04), or None if it passes a variable"""
    f = extract.find(atom_tree, 'Atom.__str__')
    if f is None:
        return 'lost'
    for n in ast.walk(f):
        if isinstance(n, ast.Call) and isinstance(n.func, ast.Attribute) and n.func.attr == 'format' \
                and isinstance(n.func.value, ast.Attribute) and n.func.value.attr == '_qpeakstr':
            if len(n.args) >= 7:
                a = n.args[6]
                if isinstance(a, ast.Constant) and isinstance(a.value, (int, float)):
                    return a.value
                return None
    return 'lost'


def write(out, fmts, chunk, overrides, qconst):
    lines = [extract.HEADER.rstrip('\n'),
             'namespace Shelx.C01.Ext',
             '',
             '/-- one piece of a Python format string: `lit n` = n literal blanks, `fld left width precision` = one',
             '    replacement field (`{:<5s}` = `fld true 5 none`, `{:>12.6f}` = `fld false 12 (some 6)`) -/',
             'inductive Piece where',
             '  | lit (n : Nat)',
             '  | fld (left : Bool) (width : Nat) (prec : Option Nat)',
             'deriving Repr, DecidableEq, Inhabited',
             'open Piece',
             '']
    for name in ('isoFmt', 'anisFmt', 'qpeakFmt', 'fragFmt'):
        lines.append(f'def {name} : List Piece := [{", ".join(fmts.get(name) or [])}]')
    lines += ['',
              f'/-- `chunks(self.as_stringlist, n)` in FVARs.__str__ -/',
              f'def fvarChunk : Nat := {chunk if chunk is not None else 0}',
              '',
              '/-- classes whose str() is computed instead of being the stored text -/',
              f'def strOverrides : List String := {extract.lean_list([extract.lean_str(x) for x in overrides])}',
              '',
              '/-- the constant Atom.__str__ prints as U of a Q-peak (`none`: it prints a variable) -/',
              'def qpeakUConst : Option Rat := ' + ('none' if qconst is None else f'some {extract.lean_rat(qconst)}'),
              '',
              'end Shelx.C01.Ext', '']
    extract.write_if_changed(out / 'C01Tables.lean', '\n'.join(lines))


def lean_piece(p):
    if p[0] == 'lit':
        return f'.lit {int(p[1])}'
    _, left, width, prec = p
    return f'.fld {"true" if left else "false"} {int(width)} ' + ('none' if prec is None else f'(some {int(prec)})')


def run_probe(repo):
    """the result of extract/probe_c01.py for the tree, or dict(fatal=why)"""
    try:
        p = subprocess.run([sys.executable, str(HERE / 'probe_c01.py'), '--repo', str(repo)],
                           stdout=subprocess.PIPE, stderr=subprocess.PIPE, text=True, timeout=180,
                           env={'PATH': '/usr/bin:/bin', 'PYTHONDONTWRITEBYTECODE': '1', 'PYTHONHASHSEED': '0'})
    except subprocess.TimeoutExpired:
        return dict(fatal='probe_c01.py did not finish within 180 s')
    mark = '\nC01-PROBE-RESULT\n'
    if mark not in p.stdout:
        return dict(fatal=f'probe_c01.py printed no result (exit {p.returncode}): {p.stderr[-300:]}')
    try:
        return json.loads(p.stdout[p.stdout.rindex(mark) + len(mark):])
    except ValueError as e:
        return dict(fatal=f'probe_c01.py printed an unreadable result: {e}')


def static_reading(repo):
    """the `ast` pattern matcher (class constants of Atom, `chunks(<list>, <int>)`, class statements of cards.py): only
    used to keep the generated file populated when the package cannot be imported; never reported as a confirmed reading"""
    atom_tree = extract.parse(repo, 'shelxfile/atoms/atom.py')
    cards_tree = extract.parse(repo, 'shelxfile/shelx/cards.py')
    cls = extract.find(atom_tree, 'Atom')
    consts = class_string_constants(cls) if cls is not None else {}
    fmts = {}
    for lean, py in (('isoFmt', '_isoatomstr'), ('anisFmt', '_anisatomstr'), ('qpeakFmt', '_qpeakstr'), ('fragFmt', '_fragatomstr')):
        s = consts.get(py)
        fmts[lean] = (parse_format(s) if s is not None else None) or []
    overrides = str_overrides(cards_tree)
    if cls is not None and any(isinstance(m, ast.FunctionDef) and m.name == '__str__' for m in cls.body):
        overrides = sorted(overrides + ['Atom'])
    qc = qpeak_const(atom_tree)
    return fmts, find_chunk(cards_tree), overrides, (None if qc == 'lost' else qc)


LAYOUTS = (('isoFmt', 'iso'), ('anisFmt', 'anis'), ('qpeakFmt', 'qpeak'), ('fragFmt', 'frag'))


@extract.extractor
def c01_tables(repo, out):
    lost = []
    r = run_probe(repo)
    if 'fatal' in r:
        lost.append(dict(props=['C01'], what=f'C01 tables: the code cannot be probed: {r["fatal"]}'))
        try:
            fmts, chunk, overrides, qc = static_reading(repo)
        except Exception:
            fmts, chunk, overrides, qc = {}, None, [], None
        write(out, fmts, chunk, overrides, qc)
        return lost
    for what in r.get('lost', []):
        lost.append(dict(props=['C01'], what=what))
    fmts = {lean: [lean_piece(p) for p in r.get('fmts', {}).get(key) or []] for lean, key in LAYOUTS}
    qc = r.get('qconst')
    qc = None if qc in (None, 'lost') else qc
    write(out, fmts, r.get('chunk'), r.get('overrides') or [], qc)
    return lost


def _fallback(out):
    write(out, {}, None, [], None)


c01_tables.props = ['C01']
c01_tables.fallback = _fallback

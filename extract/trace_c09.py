"""
C09 — tracing targets: `Atom.occupancy` and `Shelxfile.sum_formula_exact_as_dict` of a parsed file whose occupation
codes and free variables are symbolic. `split_fvar_and_parameter` takes `floor((code + 5) / 10)` — a branch event: each
target fixes the free-variable number m by its sample value and the emitted straight-line program is the occupancy ON
THAT BRANCH; the `src_…` theorems carry the branch condition as their hypothesis (`⌊(sof + 5) / 10⌋ = m`).
"""
from trace_run import target

FILE = """TITL traced
CELL 0.71073 10.5101 11.5202 12.5303 90 95 90
ZERR 4 0.001 0.001 0.001 0.01 0.01 0.01
LATT -1
SFAC C H O
UNIT 4 4 4
FVAR 0.987601 0.612302 0.273403
{atoms}
HKLF 4
END
"""
FV = {'0.987601': 'fv1', '0.612302': 'fv2', '0.273403': 'fv3'}
EVENTS = ('floor(', '> 4', '< 4', 'abs(', '> 1e-06', '> 1e-05', '> 0', '< 0', '== 0', 'bool(', '> 15', '> -', '< -',
          '>= 4', '<= 1', '> 1', 'int(')


def read(t, atoms):
    from shelxfile import Shelxfile
    for lit, n in FV.items():
        t.literal(lit, n)
    shx = Shelxfile()
    shx.read_string(FILE.format(atoms='\n'.join(atoms)))
    return shx


def atom_line(name, sfac, sof):
    return f'{name}  {sfac}  0.11  0.22  0.33  {sof}  0.04'


def occ_target(name, lit, doc, params):
    @target('C09', name, params, doc=doc, calls=['round8'], expect=EVENTS, floor_events=True)
    def f(t):
        t.literal(lit, 'sof')
        return list(read(t, [atom_line('C1', 1, lit)]).atoms)[0].occupancy
    f.__name__ = name
    return f


occ_target('occM3', '30.75', 'Atom.occupancy for a code with m = 3 (sample 30.75): fv(3) * p', ['sof', 'fv3'])
occ_target('occM2', '21.0', 'Atom.occupancy for a code with m = 2 (sample 21.0)', ['sof', 'fv2'])
occ_target('occMm3', '-30.75', 'Atom.occupancy for a code with m = -3 (sample -30.75): p * (fv(3) - 1)', ['sof', 'fv3'])
occ_target('occMm2', '-20.5', 'Atom.occupancy for a code with m = -2 (sample -20.5)', ['sof', 'fv2'])
occ_target('occM1', '10.5', 'Atom.occupancy for a code with m = 1 (sample 10.5): fixed at p', ['sof'])
occ_target('occM0', '0.25', 'Atom.occupancy for a code with m = 0 (sample 0.25): p', ['sof'])
occ_target('occMm1', '-10.5', 'Atom.occupancy for a code with m = -1 (sample -10.5)', ['sof'])


@target('C09', 'sumExactCCO', ['s1', 's2', 's3', 'fv2', 'fv3'], result_len=3, calls=['round8'], expect=EVENTS, floor_events=True,
        doc='sum_formula_exact_as_dict() values for SFAC C H O and atoms C1 (code s1, m = 2), C2 (code s2, m = -2), O1 (code s3, m = 3)')
def sum_exact(t):
    t.literal('20.6111', 's1')
    t.literal('-20.6222', 's2')
    t.literal('30.5333', 's3')
    shx = read(t, [atom_line('C1', 1, '20.6111'), atom_line('C2', 1, '-20.6222'), atom_line('O1', 3, '30.5333')])
    d = shx.sum_formula_exact_as_dict()
    return [d['C'], d['H'], d['O']]

"""
C11 — regenerate `lattTable` (LATT number -> list of centring vectors) from the `lattdict` literal of
class LATT in shelxfile/shelx/cards.py, as a Lean table of exact Rat triples
(lean/ShelxModel/Extracted/Latt.lean). Pure `ast`, nothing is imported or executed.

Accepted spellings: list or tuple of components; components as strings ('0.5', '1/3', ' 2 / 3 ', '+0.5'),
int or float constants; `SymmetryElement([...])`, `SymmetryElement(symms=[...])`, a qualified
`dsrmath.SymmetryElement(...)`; entries in any key order (the table is written sorted by key).
A component that is not a pure number (contains X/Y/Z, not parseable) makes the table *lost* for C11.
"""
from __future__ import annotations

import ast
from fractions import Fraction
from pathlib import Path

import extract  # the running extract.py (see its __main__ / core.run_extract)

REL = 'shelxfile/shelx/cards.py'
OUT = 'Latt.lean'


class Unfit(Exception):
    pass


def _component(node) -> Fraction:
    """one translation component of a centring vector, exactly"""
    if isinstance(node, ast.UnaryOp) and isinstance(node.op, (ast.USub, ast.UAdd)):
        v = _component(node.operand)
        return -v if isinstance(node.op, ast.USub) else v
    if isinstance(node, ast.BinOp) and isinstance(node.op, ast.Div):
        return _component(node.left) / _component(node.right)
    if not isinstance(node, ast.Constant):
        raise Unfit(f'component is not a literal: {ast.dump(node)[:60]}')
    v = node.value
    if isinstance(v, bool):
        raise Unfit('bool component')
    if isinstance(v, int):
        return Fraction(v)
    if isinstance(v, float):
        return Fraction(repr(v))
    if isinstance(v, str):
        s = v.replace(' ', '')
        try:
            if '/' in s:
                a, b = s.split('/')
                return Fraction(a.rstrip('.') or '0') / Fraction(b.rstrip('.'))
            return Fraction(s)
        except (ValueError, ZeroDivisionError):
            raise Unfit(f'component {v!r} is not a pure translation')
    raise Unfit(f'component of type {type(v).__name__}')


def _vector(node):
    if not isinstance(node, ast.Call):
        raise Unfit('centring entry is not a SymmetryElement(...) call')
    f = node.func
    name = f.id if isinstance(f, ast.Name) else f.attr if isinstance(f, ast.Attribute) else None
    if name != 'SymmetryElement':
        raise Unfit(f'centring entry constructed by {name}')
    arg = None
    if node.args:
        arg = node.args[0]
    for kw in node.keywords:
        if kw.arg == 'symms':
            arg = kw.value
        elif kw.arg == 'centric' and isinstance(kw.value, ast.Constant) and kw.value.value is False:
            pass
        else:
            raise Unfit(f'unexpected keyword {kw.arg}')
    if len(node.args) > 1:
        raise Unfit('centring entry with more than one positional argument')
    if not isinstance(arg, (ast.List, ast.Tuple)) or len(arg.elts) != 3:
        raise Unfit('centring vector is not a literal triple')
    return tuple(_component(e) for e in arg.elts)


def read_lattdict(repo: Path):
    tree = extract.parse(repo, REL)
    cls = extract.find(tree, 'LATT')
    if cls is None:
        raise Unfit('class LATT not found in cards.py')
    for st in cls.body:
        tgt = None
        if isinstance(st, ast.Assign) and len(st.targets) == 1 and isinstance(st.targets[0], ast.Name):
            tgt, val = st.targets[0].id, st.value
        elif isinstance(st, ast.AnnAssign) and isinstance(st.target, ast.Name) and st.value is not None:
            tgt, val = st.target.id, st.value
        if tgt != 'lattdict':
            continue
        if not isinstance(val, ast.Dict):
            raise Unfit('lattdict is not a dict literal')
        table = {}
        for k, v in zip(val.keys, val.values):
            if not (isinstance(k, ast.Constant) and isinstance(k.value, int) and not isinstance(k.value, bool) and k.value >= 0):
                raise Unfit('lattdict key is not a non-negative int literal')
            if not isinstance(v, (ast.List, ast.Tuple)):
                raise Unfit(f'lattdict[{k.value}] is not a list literal')
            table[k.value] = [_vector(e) for e in v.elts]     # a repeated key: the last one wins, as in Python
        return table
    raise Unfit('LATT.lattdict not found')


def lean_q(fr: Fraction) -> str:
    if fr.denominator == 1:
        return f'({fr.numerator} : Rat)'
    return f'(({fr.numerator} : Rat) / {fr.denominator})'


def render(table: dict) -> str:
    rows = []
    for k in sorted(table):
        vecs = ', '.join('(' + ', '.join(lean_q(c) for c in v) + ')' for v in table[k])
        rows.append(f'  ({k}, [{vecs}])')
    body = ',\n'.join(rows)
    return (extract.HEADER +
            '/- `LATT.lattdict` of shelxfile/shelx/cards.py: |N| -> centring vectors (translations of the\n'
            '   `SymmetryElement`s), in the order of the source. Used by Shelx.C11 (model `centring`). -/\n'
            'namespace Shelx.Extracted\n\n'
            'def lattTable : List (Nat × List (Rat × Rat × Rat)) := [\n' + body + ('\n' if body else '') + ']\n\n'
            'end Shelx.Extracted\n')


def fallback(out: Path):
    extract.write_if_changed(Path(out) / OUT, render({}))


@extract.extractor
def latt_table(repo, out):
    try:
        table = read_lattdict(Path(repo))
    except (Unfit, OSError, SyntaxError) as e:
        fallback(out)
        return [dict(props=['C11'], what=f'LATT.lattdict no longer fits the recogniser: {e}')]
    extract.write_if_changed(Path(out) / OUT, render(table))
    return []


latt_table.props = ['C11']
latt_table.fallback = fallback

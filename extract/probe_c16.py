#!/venv/bin/python
"""
C16 — semantic reader of the card constructors (subprocess of extract/tables_c16.py).

The card classes of the working tree are not pattern-matched, they are EXECUTED: the package is imported from
`--repo`, every class of `shelxfile/shelx/cards.py` that derives from `Command` or `Restraint` is constructed on a real
`Shelxfile()` with `[KEYWORD, t0, …, t(n-1)]` for every n = 0 … NMAX, without and with a DEFS object, and the object that
comes out is inspected. The numeric tokens are placeholders of the tracing translator (symtrace.py): inside the package
`float('900.5')` yields the symbolic number `p0` …, so an attribute that holds `p3` is recognised by IDENTITY of what
flowed into it (whatever helper, loop, `setattr`, tuple assignment, early return or comparison spelling moved it there);
numbers that lost their provenance (e.g. `int(p[0])`, or the plain ints of `intnums=True`) are recognised by VALUE.
The DEFS object carries symbolic `defs_sd … defs_maxsof`, so `s = defs.sd * 2` is read as (field sd, factor 2) from the
linear normal form of the expression that arrived in the attribute.

A reading is only kept when it is confirmed on four more sample vectors (ascending, negative, tiny, all zero) and on
vectors that put a parameter on, just below and just above every constant the constructor compared it with (the
branch events of the tracer: `if p[0] > 5:`, `if not self.d:`): for each of them the value predicted by the form read
from the first vector is compared with what the constructor produced. An attribute whose values do not agree is value
dependent; it is reported, never guessed.

Printed: one JSON object  {"classes": [...], "lost": [...]}  (see `probe_class`); the piecewise synthesis of guards from
the per-n observations and the Lean rendering are done by tables_c16.py.
"""
from __future__ import annotations

import argparse
import contextlib
import importlib
import io
import json
import re
import sys
import traceback
from fractions import Fraction
from pathlib import Path

HERE = Path(__file__).resolve().parent
sys.path.insert(0, str(HERE))

import symtrace as st  # noqa: E402

NMAX = 16
FIELDS = ['sd', 'sf', 'su', 'ss', 'maxsof']
SKIP = {'Residue', 'Restraint', 'Command', 'Residues', 'Restraints', 'FVAR', 'FVARs', 'SymmCards', 'SFACTable'}
WORDS = ['C1', 'C2']

# sample vectors: (name, value of parameter j as decimal, as integer (for `intnums=True` classes), DEFS values)
# every vector has pairwise distinct values with pairwise distinct integer parts (except `zero`, which is only ever
# used to CONFIRM a reading); none of the values is a default of any instruction
SETS = [
    ('desc', lambda j: 900.5 - 37 * j, lambda j: 900 - 37 * j, [0.031, 0.13, 0.017, 0.047, 0.9]),
    ('asc', lambda j: 101.25 + 7 * j, lambda j: 101 + 7 * j, [0.033, 0.15, 0.019, 0.043, 0.8]),
    ('neg', lambda j: -(50.5 + 3 * j), lambda j: -(50 + 3 * j), [0.037, 0.17, 0.013, 0.053, 0.7]),
    ('tiny', lambda j: 0.0137 * (j + 1), lambda j: j + 21, [0.029, 0.19, 0.023, 0.059, 0.6]),
    ('zero', lambda j: 0.0, lambda j: 0, [0.027, 0.21, 0.011, 0.061, 0.5]),
]


def token(si, j, ints):
    """the text of parameter j in sample vector si; distinct texts even where the values coincide (zero vector)"""
    name, dec, integer, _ = SETS[si]
    if ints:
        return str(integer(j))
    if name == 'zero':
        return '0.' + '0' * (j + 1)
    return repr(float(dec(j)))


def sample(si, j, ints):
    return SETS[si][2](j) if ints else float(SETS[si][1](j))


# ------------------------------------------------------------------------------------------------------------
# linear normal form of a traced expression

def linear(node):
    """node -> ({var: Fraction}, Fraction) or None when the expression is not linear in its inputs"""
    k = node[0]
    if k == 'var':
        return {node[1]: Fraction(1)}, Fraction(0)
    if k == 'int':
        return {}, Fraction(node[1])
    if k == 'dec':
        try:
            return {}, Fraction(node[1])
        except ValueError:
            return None
    if k == 'neg':
        a = linear(node[1])
        return None if a is None else ({v: -c for v, c in a[0].items()}, -a[1])
    if k in ('add', 'sub'):
        a, b = linear(node[1]), linear(node[2])
        if a is None or b is None:
            return None
        sg = 1 if k == 'add' else -1
        out = dict(a[0])
        for v, c in b[0].items():
            out[v] = out.get(v, Fraction(0)) + sg * c
        return {v: c for v, c in out.items() if c != 0}, a[1] + sg * b[1]
    if k == 'mul':
        a, b = linear(node[1]), linear(node[2])
        if a is None or b is None:
            return None
        if not a[0]:
            a, b = b, a
        if b[0]:
            return None
        return {v: c * b[1] for v, c in a[0].items() if c * b[1] != 0}, a[1] * b[1]
    if k == 'div':
        a, b = linear(node[1]), linear(node[2])
        if a is None or b is None or b[0] or b[1] == 0:
            return None
        return {v: c / b[1] for v, c in a[0].items()}, a[1] / b[1]
    return None


# ------------------------------------------------------------------------------------------------------------
# classification of one observed value (first sample vector) and confirmation (the others)

def plain_number(v):
    return isinstance(v, (int, float)) and not isinstance(v, bool) and not isinstance(v, st.Sym)


def finite(v):
    return v == v and v not in (float('inf'), float('-inf'))


def classify(v, si, n, ints, with_defs):
    """-> form:  ['const', json] | ['idx', j, 'id'|'int'] | ['slice', a, end] | ['defs', field, num, den]
                 | ['derived', why] | ['structured', why]"""
    if isinstance(v, st.Sym):
        lin = linear(v.node)
        if lin is None:
            return ['derived', 'computed: ' + st.show(v.node)[:60]]
        vs, c = lin
        if len(vs) == 1 and c == 0:
            (name, co), = vs.items()
            if name.startswith('p') and name[1:].isdigit() and co == 1:
                return ['idx', int(name[1:]), 'id']
            if name.startswith('defs_'):
                return ['defs', name[5:], co.numerator, co.denominator]
        if not vs:
            return ['const', float(c)]
        return ['derived', 'computed: ' + st.show(v.node)[:60]]
    if v is None or isinstance(v, bool):
        return ['const', v]
    if plain_number(v):
        if not finite(v):
            return ['derived', 'nan/inf']
        for j in range(n):
            s = sample(si, j, ints)
            if v == s and (ints or isinstance(v, float)):
                return ['idx', j, 'id']
        if isinstance(v, int) and not ints:
            for j in range(n):
                if v == int(sample(si, j, ints)):
                    return ['idx', j, 'int']
        if with_defs and isinstance(v, float):
            for f, d in zip(FIELDS, SETS[si][3]):
                if v == d:
                    return ['defs', f, 1, 1]
        return ['const', v]
    if isinstance(v, str):
        return ['const', v]
    if isinstance(v, (list, tuple)):
        if len(v) == 0:
            return ['const', []]
        parts = [classify(x, si, n, ints, with_defs) for x in v]
        if all(p[0] == 'idx' and p[2] == 'id' for p in parts) and \
                all(p[1] == parts[0][1] + i for i, p in enumerate(parts)):
            return ['slice', parts[0][1], parts[0][1] + len(parts)]
        if all(p[0] == 'const' and plain_number(p[1]) for p in parts):
            return ['const', [p[1] for p in parts]]
        if any(p[0] in ('idx', 'slice', 'defs', 'structured') for p in parts):
            return ['structured', f'{type(v).__name__} of ' + ', '.join(sorted({p[0] for p in parts}))]
        return ['derived', f'{type(v).__name__} of objects']
    if isinstance(v, (dict, set, frozenset)):
        return ['derived', type(v).__name__]
    return ['derived', 'object ' + type(v).__name__]


def num_eq(a, b):
    try:
        a, b = float.__float__(a) if isinstance(a, st.Sym) else a, float.__float__(b) if isinstance(b, st.Sym) else b
        return a == b or abs(a - b) <= 1e-12 * max(abs(a), abs(b))
    except Exception:
        return False


def confirms(form, v, si, n, ints):
    """does the value `v` observed under sample vector si agree with the form read from the first vector?"""
    k = form[0]
    if k in ('derived', 'structured'):
        return True                        # not represented anyway
    if k == 'const':
        c = form[1]
        if isinstance(v, st.Sym):
            lin = linear(v.node)
            return lin is not None and not lin[0] and plain_number(c) and num_eq(float(lin[1]), c)
        if c is None or isinstance(c, (bool, str)):
            return type(v) is type(c) and v == c
        if isinstance(c, list):
            return isinstance(v, (list, tuple)) and len(v) == len(c) and all(confirms(['const', x], y, si, n, ints) for x, y in zip(c, v))
        return plain_number(v) and v == c
    if k == 'idx':
        j = form[1]
        if j >= n:
            return False
        if isinstance(v, st.Sym):
            lin = linear(v.node)
            return form[2] == 'id' and lin == ({f'p{j}': Fraction(1)}, Fraction(0))
        if not plain_number(v):
            return False
        s = sample(si, j, ints)
        return (isinstance(v, int) and not ints and v == int(s)) if form[2] == 'int' else v == s
    if k == 'slice':
        a, end = form[1], form[2]
        return isinstance(v, (list, tuple)) and len(v) == end - a and \
            all(confirms(['idx', a + i, 'id'], x, si, n, ints) for i, x in enumerate(v))
    if k == 'defs':
        f, m = form[1], Fraction(form[2], form[3])
        if isinstance(v, st.Sym):
            return linear(v.node) == ({'defs_' + f: m}, Fraction(0))
        return plain_number(v) and num_eq(v, SETS[si][3][FIELDS.index(f)] * float(m))
    return False


# ------------------------------------------------------------------------------------------------------------
# one construction

class World:
    def __init__(self, pkg):
        self.cards = importlib.import_module('shelxfile.shelx.cards')
        self.Shelxfile = getattr(importlib.import_module('shelxfile'), 'Shelxfile', None) or \
            importlib.import_module('shelxfile.shelx.shelx').Shelxfile
        self.placeholders = {}
        self.base_cache = {}

    def shx(self, si, with_defs):
        shx = self.Shelxfile()
        if with_defs:
            d = None
            try:
                d = self.cards.DEFS(shx, ['DEFS'])
            except Exception:
                pass
            if d is None:
                import types
                d = types.SimpleNamespace(active=True)
            for f, val in zip(FIELDS, SETS[si][3]):
                setattr(d, f, st.var('defs_' + f, val))
            shx.defs = d
        return shx

    def build(self, cls, kw, si, n, ints, with_defs, words=()):
        """-> (object (possibly half built), exception or None, events)"""
        self.placeholders.clear()
        shx = self.shx(si, with_defs)
        toks = []
        for j in range(n):
            t = token(si, j, ints)
            toks.append(t)
            if not ints:
                self.placeholders[t] = st.var(f'p{j}', sample(si, j, ints))
        obj = object.__new__(cls)
        st.EVENTS.clear()
        exc = None
        try:
            cls.__init__(obj, shx, [kw] + toks + list(words))
        except Exception as e:   # noqa
            exc = e
        return obj, shx, exc, list(st.EVENTS)


def candidate_names(cls, base, obj):
    """instance attributes in assignment order, then class-level data attributes and properties defined below the base"""
    names, kinds = [], {}
    for k in getattr(obj, '__dict__', {}):
        names.append(k)
        kinds[k] = 'instance'
    stop = set(base.__mro__)
    for k in cls.__mro__:
        if k in stop:
            continue
        for name, v in vars(k).items():
            if name.startswith('__') or name in kinds:
                continue
            if isinstance(v, property):
                kinds[name] = 'property'
                names.append(name)
            elif callable(v) or isinstance(v, (staticmethod, classmethod)):
                continue
            else:
                kinds[name] = 'classattr'
                names.append(name)
    return names, kinds


def observe(world, cls, base, kw, si, n, ints, with_defs):
    """-> dict(exc=None|class name, values={attr: python value}, kinds={attr: kind}, order=[...], events=[...])"""
    obj, shx, exc, events = world.build(cls, kw, si, n, ints, with_defs)
    key = (base, kw, SETS[si][0], n, ints, with_defs)
    if key not in world.base_cache:
        bobj, _, bexc, _ = world.build(base, kw, si, n, ints, with_defs)
        world.base_cache[key] = dict(getattr(bobj, '__dict__', {}))
    inherited = world.base_cache[key]
    names, kinds = candidate_names(cls, base, obj)
    values = {}
    for a in names:
        try:
            v = getattr(obj, a)
        except Exception:
            continue                       # a property that can not be read (or no such attribute): unset
        if v is shx or v is obj:
            continue
        if a in inherited and kinds[a] == 'instance':
            w = inherited[a]
            try:
                if type(w) is type(v) and not isinstance(v, st.Sym) and bool(w == v):
                    continue               # bookkeeping of the base class (`_spline`, `_textline`, `atoms` = [] …)
            except Exception:
                pass
        values[a] = v
    st.EVENTS.clear()
    return dict(exc=None if exc is None else type(exc).__name__, values=values, kinds=kinds, order=list(values),
                events=events)


_CMP = re.compile(r'^p(\d+) (?:<|<=|>|>=|==) (-?\d+(?:\.\d*)?(?:e[+-]?\d+)?)$')
_TRUTH = re.compile(r'^bool\(p(\d+)\)$')


def thresholds_of(event):
    """branch event of the tracer -> [(parameter index, constant it was compared with)]"""
    kind, text, _ = event
    m = _CMP.match(text) if kind == 'cmp' else _TRUTH.match(text) if kind == 'truth' else None
    if not m:
        return []
    try:
        return [(int(m.group(1)), float(m.group(2)) if kind == 'cmp' else 0.0)]
    except ValueError:
        return []


def is_index_error(name):
    return name == 'IndexError'


def probe_class(world, cls, base):
    """-> dict(name, base, intnums, words, points=[[point(n) for n] for hd in (0, 1)], order, notes, unreadable)
       point: dict(kind='ok'|'index'|'raise', exc, forms={attr: form})"""
    kw = cls.__name__
    notes, unreadable = [], None
    # numbers as integers?  (`_parse_line(spline, intnums=True)`: a decimal raises ValueError, an integer does not)
    ints = False
    o1 = observe(world, cls, base, kw, 0, 1, False, False)
    if o1['exc'] == 'ValueError':
        o1i = observe(world, cls, base, kw, 0, 1, True, False)
        if o1i['exc'] != 'ValueError':
            ints = True
    attr_kind, order, points = {}, [], []
    inconsistent, computed = {}, set()
    ev_notes = set()
    thresholds = set()

    def confirm(forms, o, prim, i, n, hd):
        for a in set(forms) | set(o['values']):
            if a in forms and a in o['values']:
                good = confirms(forms[a], o['values'][a], i, n, ints)
            else:
                good = a in forms and forms[a][0] in ('derived', 'structured')
            if not good:
                # a number that is neither a parameter nor a constant under both vectors was COMPUTED from the
                # parameters by code that lost the provenance (`CELL.cosal` when the tokens do not go through
                # float()): left out of the table like any other derived value, not a contradiction
                fa = forms.get(a, ['unset'])
                fb = classify(o['values'][a], i, n, ints, hd) if a in o['values'] else ['unset']
                if all(f[0] == 'const' and plain_number(f[1]) for f in (fa, fb)):
                    computed.add(a)
                    continue
                inconsistent.setdefault(a, f'n={n}{" after DEFS" if hd else ""}: `{SETS[prim][0]}` values give '
                                           f'{forms.get(a, ["unset"])}, `{SETS[i][0]}` values give '
                                           f'{short(o["values"].get(a, "unset"))}')

    for hd in (False, True):
        row = []
        for n in range(NMAX + 1):
            obs = [observe(world, cls, base, kw, si, n, ints, hd) for si in range(len(SETS))]
            excs = [o['exc'] for o in obs]
            done = [i for i, e in enumerate(excs) if e is None]
            idxerr = [i for i, e in enumerate(excs) if e is not None and is_index_error(e)]
            if idxerr and len(idxerr) != len(obs):
                unreadable = unreadable or (f'n={n}{" after DEFS" if hd else ""}: IndexError for some parameter values only '
                                            f'({", ".join(SETS[i][0] for i in idxerr)})')
            if done:
                prim, kind, exc = done[0], 'ok', None
            elif idxerr:
                prim, kind, exc = 0, 'index', 'IndexError'
            else:
                prim, kind, exc = 0, 'raise', excs[0]
            po = obs[prim]
            forms = {a: classify(v, prim, n, ints, hd) for a, v in po['values'].items()}
            for a in po['order']:
                if a not in attr_kind:
                    attr_kind[a] = po['kinds'][a]
                    order.append(a)
            for e in po['events']:
                if e[0] in ('cmp', 'truth'):
                    ev_notes.add(e[1])
            for o in obs:
                for e in o['events']:
                    if e[0] in ('cmp', 'truth'):
                        for jt in thresholds_of(e):
                            thresholds.add(jt)
            # confirmation on the other vectors that complete
            same_raise = kind == 'raise' and all(e == excs[0] for e in excs)
            if kind == 'ok' or same_raise:
                for i in (done[1:] if kind == 'ok' else range(1, len(obs))):
                    confirm(forms, obs[i], prim, i, n, hd)
            row.append(dict(kind=kind, exc=exc, forms=forms))
        points.append(row)
    # every constant a traced parameter was compared with (`if p[0] > 5:`, `if not self.d:`): the reading is also
    # confirmed on vectors that put that parameter on the constant and on either side of it
    for j, t in sorted(thresholds)[:12]:
        for v in (t, t - max(abs(t), 1.0) * 1e-3, t + max(abs(t), 1.0) * 1e-3):
            SETS.append((f'p{j}={v!r}', (lambda k, j=j, v=v: v if k == j else 900.5 - 37 * k),
                         (lambda k, j=j, v=v: int(v) if k == j else 900 - 37 * k), SETS[0][3]))
            i = len(SETS) - 1
            try:
                for hd in (False, True):
                    for n in range(j + 1, NMAX + 1):
                        pt = points[hd][n]
                        if pt['kind'] != 'ok':
                            continue
                        o = observe(world, cls, base, kw, i, n, ints, hd)
                        if o['exc'] is None:
                            confirm(pt['forms'], o, 0, i, n, hd)
                        elif is_index_error(o['exc']):
                            unreadable = unreadable or f'n={n}: IndexError when parameter {j} is {v!r}'
            finally:
                SETS.pop()
    for a, why in inconsistent.items():
        notes.append(f'{a}: depends on the parameter VALUES ({why})')
    # which attribute receives the words
    words = None
    try:
        obj, _, exc, _ = world.build(cls, kw, 0, 1, ints, False, WORDS)
        if exc is None:
            for a, v in getattr(obj, '__dict__', {}).items():
                if isinstance(v, list) and v == WORDS:
                    words = a
                    break
    except Exception:
        pass
    if ev_notes:
        notes.append('branches on parameter values (confirmed on all sample vectors): ' + '; '.join(sorted(ev_notes)[:6]))
    return dict(name=cls.__name__, base=base.__name__, intnums=ints, words=words, points=points, order=order,
                attr_kind=attr_kind, inconsistent=sorted(inconsistent), computed=sorted(computed - set(inconsistent)), notes=notes,
                unreadable=unreadable)


def short(v):
    try:
        if isinstance(v, st.Sym):
            return st.show(v.node)[:40]
        return repr(v)[:40]
    except Exception:
        return '<' + type(v).__name__ + '>'


def jsonable(x):
    if isinstance(x, dict):
        return {k: jsonable(v) for k, v in x.items()}
    if isinstance(x, (list, tuple)):
        return [jsonable(v) for v in x]
    if isinstance(x, st.Sym):
        return float.__float__(x)
    return x


def run(repo):
    lost, classes = [], []
    pkg = st.import_repo(repo)
    world = World(pkg)
    cards = world.cards
    Command, Restraint = getattr(cards, 'Command', None), getattr(cards, 'Restraint', None)
    if Command is None or Restraint is None:
        return dict(classes=[], lost=['cards.py has no class Command / Restraint any more'])
    seen = set()
    with st.Tracing(repo, world.placeholders):
        for name, cls in list(vars(cards).items()):
            if not isinstance(cls, type) or cls.__name__ in SKIP or cls in seen or name.startswith('_'):
                continue
            if not str(getattr(cls, '__module__', '')).startswith('shelxfile'):
                continue
            base = Restraint if issubclass(cls, Restraint) else Command if issubclass(cls, Command) else None
            if base is None or name != cls.__name__:
                continue
            seen.add(cls)
            try:
                classes.append(probe_class(world, cls, base))
            except Exception as e:     # noqa
                traceback.print_exc(file=sys.stderr)
                classes.append(dict(name=cls.__name__, base=base.__name__, intnums=False, words=None, points=None, order=[],
                                    attr_kind={}, inconsistent=[], computed=[], notes=[],
                                    unreadable=f'the constructor could not be probed: {type(e).__name__}: {e}'))
    return dict(classes=jsonable(classes), lost=lost, nmax=NMAX)


if __name__ == '__main__':
    ap = argparse.ArgumentParser()
    ap.add_argument('--repo', default='/repo')
    a = ap.parse_args()
    real = sys.stdout
    buf = io.StringIO()
    with contextlib.redirect_stdout(buf):
        try:
            r = run(Path(a.repo).resolve())
        except Exception as e:   # noqa
            traceback.print_exc(file=sys.stderr)
            r = dict(classes=[], lost=[f'the package could not be probed: {type(e).__name__}: {e}'])
    real.write(json.dumps(r))
    real.write('\n')

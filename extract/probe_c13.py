#!/venv/bin/python
"""
C13 — subprocess entry of tables_c13.py: the tables of the shortest-distance matrix are read by RUNNING the code of the
tree under test, not by matching the shape of its source text.

The package is imported from `--repo` (and from nowhere else). Small structures are built through the public API the
harness uses as well (`Shelxfile.read_string`, `Atom.frac_coords = …`, `Atom.element = …`, `Atom.part = PART(…)`,
`SDM(shx).calc_sdm()`, `sdm.sdm_list`), with

  * symbolic coordinates and symbolic covalent radii (`symtrace.Sym`: a float that remembers how it was computed) —
    every comparison the code makes with such a number is recorded with both sides as expression trees;
  * symbolic PART numbers (`SymInt`, the same idea for `int`).

What is read, and how it is recognised (by meaning — by what the number is compared with / what happens — never by
the name of a local, the nesting of the loops, the helper a statement lives in or the spelling of a literal):

  half    every distance is `sqrt(R)`; the arguments of the `floor` calls inside R are `op_n(x1) - x2 + half`
          (matched against the operators the library holds: this also tells which operator n a distance belongs to),
          and R depends on the coordinates only through `w = (D - floor D) - half` (checked by substitution)
  cut     the constant c of the test `dk > c` that is passed on the low side by a contact in range and on the high side
          by a contact of 7 Å
  eps     the constant of the test `b > c` passed on the high side by a contact in range and on the low side by an atom
          and its own identity image
  bias    `b - dk` for every operator but the first (and 0 for the first)
  big     the constant that stands in for the running minimum in the test `b <= mind` before any operator was accepted
          (if there is none — a None sentinel, +infinity — cut + bias + 1 is written: every handicapped distance that
          reaches the test is at most cut + bias, so every start value above that decides identically)
  factor  the bond limit the reported distance is compared with is `factor * (r1 + r2)` (polynomial normal form in the
          symbolic radii)
  nobond  the constant the distance is compared with where no bond is allowed (0 if the code does not compare at all there)
  bond    the decision tree of the tests on the PART numbers that are made before the list is sorted (both directions
          A..B, B..A of one pair of atoms; a test asked twice counts once), per combination of hydrogen flags, over all
          pairs of PART numbers from two below the smallest to two above the largest constant the code compares them
          with; leaves = the `covalent` flag of a contact well inside the bond limit. A side of a test that no pair takes
          is dropped only if every test is a plain comparison among p1, p2, p1*p2 and constants (then that grid shows
          every possible ordering, and the side is impossible for all integers); otherwise it is reported as not known.
  radii   `Atom.radius` for every element symbol of at most two letters
  hyd     `Atom.is_hydrogen` for the same symbols

Every reading is cross-checked on several samples; whatever does not have the expected meaning is reported as lost
(JSON key `lost`), never guessed. Comparisons are normalised (`a > b`, `b < a`, `not a <= b` are one test; which side
the boundary belongs to is kept: `>` for `>=` is NOT the same test and is reported).

usage: probe_c13.py --repo /repo          prints one JSON object
"""
from __future__ import annotations

import argparse
import contextlib
import io
import json
import math
import sys
import traceback
from fractions import Fraction
from pathlib import Path

HERE = Path(__file__).resolve().parent
sys.path.insert(0, str(HERE))

import symtrace as st  # noqa: E402


class Lost(Exception):
    pass


# ------------------------------------------------------------------------------------------------------------
# structured event log (symtrace records branch events as text; here both sides are kept as expression trees)

LOG = []
INF = ('inf',)          # float('inf') as the other side of a comparison


def _sym_cmp(self, o, op, fn):
    if not st._num(o):
        return NotImplemented
    r = fn(float.__float__(self), float.__float__(o) if isinstance(o, st.Sym) else o)
    if isinstance(o, float) and not isinstance(o, st.Sym) and math.isinf(o):
        other = INF if o > 0 else st.mk('neg', INF)
    else:
        other = st.lift(_v(o) if isinstance(o, SymInt) else o)
    LOG.append(('cmp', self.node, op, other, bool(r)))
    return r


def _sym_bool(self):
    r = float.__float__(self) != 0
    LOG.append(('cmp', self.node, '!=', st.mk('int', 0), r))
    return r


def _sym_int(self):
    LOG.append(('escape', self.node, 'int'))
    return int(float.__float__(self))


def _sym_round(self, n=None):
    LOG.append(('escape', self.node, 'round'))
    return round(float.__float__(self), n) if n is not None else round(float.__float__(self))


st.Sym._cmp = _sym_cmp
st.Sym.__bool__ = _sym_bool
st.Sym.__int__ = _sym_int
st.Sym.__trunc__ = _sym_int
st.Sym.__round__ = _sym_round


def _inode(x):
    if isinstance(x, SymInt):
        return x.node
    return st.mk('int', x) if x >= 0 else st.mk('neg', st.mk('int', -x))


def _v(x):
    """the plain value of an int / SymInt (without logging a conversion)"""
    return int.__int__(x)


def _isint(x):
    return isinstance(x, int) and not isinstance(x, bool)


class SymInt(int):
    """an int that remembers how it was computed; comparisons and truth tests are logged"""

    def __new__(cls, node, val):
        o = int.__new__(cls, val)
        o.node = node
        return o

    def _bin(self, o, op, fn, swap=False):
        if not _isint(o):
            if isinstance(o, float):
                LOG.append(('iescape', self.node, 'float arithmetic'))
                return fn(float(_v(self)), o) if not swap else fn(o, float(_v(self)))
            return NotImplemented
        a, b = (o, self) if swap else (self, o)
        return SymInt(st.mk(op, _inode(a), _inode(b)), fn(_v(a), _v(b)))

    def __add__(self, o): return self._bin(o, 'add', lambda x, y: x + y)
    def __radd__(self, o): return self._bin(o, 'add', lambda x, y: x + y, True)
    def __sub__(self, o): return self._bin(o, 'sub', lambda x, y: x - y)
    def __rsub__(self, o): return self._bin(o, 'sub', lambda x, y: x - y, True)
    def __mul__(self, o): return self._bin(o, 'mul', lambda x, y: x * y)
    def __rmul__(self, o): return self._bin(o, 'mul', lambda x, y: x * y, True)
    def __neg__(self): return SymInt(st.mk('neg', self.node), -_v(self))
    def __pos__(self): return self

    def _esc(self, what):
        LOG.append(('iescape', self.node, what))

    def __abs__(self):
        self._esc('abs')
        return abs(_v(self))

    def __pow__(self, o, mod=None):
        if _isint(o) and not isinstance(o, SymInt) and 0 <= o <= 4 and mod is None:
            r = SymInt(st.mk('int', 1), 1)
            for _ in range(o):
                r = r * self
            return r
        self._esc('pow')
        return pow(_v(self), o, mod)

    def __truediv__(self, o):
        self._esc('/')
        return _v(self) / o

    def __floordiv__(self, o):
        self._esc('//')
        return _v(self) // o

    def __mod__(self, o):
        self._esc('%')
        return _v(self) % o

    def _cmp(self, o, op, fn):
        if not _isint(o):
            if isinstance(o, float):
                if math.isfinite(o) and o == int(o):
                    o = int(o)
                else:
                    self._esc('comparison with a float')
                    return fn(_v(self), o)
            else:
                return NotImplemented
        r = fn(_v(self), _v(o))
        LOG.append(('icmp', self.node, op, _inode(o), bool(r)))
        return r

    def __lt__(self, o): return self._cmp(o, '<', lambda x, y: x < y)
    def __le__(self, o): return self._cmp(o, '<=', lambda x, y: x <= y)
    def __gt__(self, o): return self._cmp(o, '>', lambda x, y: x > y)
    def __ge__(self, o): return self._cmp(o, '>=', lambda x, y: x >= y)
    def __eq__(self, o): return self._cmp(o, '==', lambda x, y: x == y)

    def __ne__(self, o):
        r = self._cmp(o, '!=', lambda x, y: x != y)
        return r

    def __bool__(self):
        r = _v(self) != 0
        LOG.append(('icmp', self.node, '!=', st.mk('int', 0), r))
        return r

    def __hash__(self):
        self._esc('hash (set/dict lookup)')
        return int.__hash__(self)

    def __str__(self):
        self._esc('str')
        return int.__repr__(self)

    __repr__ = __str__

    def __format__(self, spec):
        self._esc('format')
        return int.__format__(_v(self), spec)

    def __float__(self):
        self._esc('float')
        return float(_v(self))

    def __int__(self):
        self._esc('int')
        return _v(self)

    __trunc__ = __int__


# ------------------------------------------------------------------------------------------------------------
# polynomial normal form of an expression tree: {monomial: Fraction}, monomial = sorted tuple of atom numbers;
# atoms are the named inputs and the calls (sqrt, floor, …); decimal literals are taken at their literal value

class Polys:
    def __init__(self):
        self.atom_of = {}      # id(node) -> number
        self.nodes = []        # number -> node
        self.memo = {}

    def atom(self, node):
        k = self.atom_of.get(id(node))
        if k is None:
            k = len(self.nodes)
            self.atom_of[id(node)] = k
            self.nodes.append(node)
        return k

    @staticmethod
    def const(c):
        c = Fraction(c)
        return {(): c} if c else {}

    @staticmethod
    def add(a, b, s=1):
        r = dict(a)
        for m, c in b.items():
            v = r.get(m, 0) + s * c
            if v:
                r[m] = v
            else:
                r.pop(m, None)
        return r

    @staticmethod
    def mul(a, b):
        r = {}
        for m1, c1 in a.items():
            for m2, c2 in b.items():
                m = tuple(sorted(m1 + m2))
                v = r.get(m, 0) + c1 * c2
                if v:
                    r[m] = v
                else:
                    r.pop(m, None)
        return r

    def of(self, node):
        got = self.memo.get(id(node))
        if got is not None:
            return got
        k = node[0]
        if k == 'int':
            r = self.const(node[1])
        elif k == 'dec':
            r = self.const(Fraction(node[1]))
        elif k == 'var':
            r = {(self.atom(node),): Fraction(1)}
        elif k == 'neg':
            r = self.add({}, self.of(node[1]), -1)
        elif k == 'add':
            r = self.add(self.of(node[1]), self.of(node[2]))
        elif k == 'sub':
            r = self.add(self.of(node[1]), self.of(node[2]), -1)
        elif k == 'mul':
            r = self.mul(self.of(node[1]), self.of(node[2]))
        elif k == 'div':
            q = self.of(node[2])
            if is_const(q) and q:
                r = self.mul(self.of(node[1]), self.const(1 / q[()]))
            else:
                r = {(self.atom(node),): Fraction(1)}
        elif k == 'call' and node[1] == 'pymod' and is_const(self.of(node[3])) and self.of(node[3]).get((), 0) == 1:
            # x % 1 is x - floor(x) for Python floats
            fl = st.mk('call', 'floor', node[2])
            r = self.add(self.of(node[2]), {(self.atom(fl),): Fraction(1)}, -1)
        else:
            r = {(self.atom(node),): Fraction(1)}
        self.memo[id(node)] = r
        return r

    def subst(self, p, table):
        """replace atoms (number -> polynomial)"""
        out = {}
        for m, c in p.items():
            term = self.const(c)
            for a in m:
                term = self.mul(term, table[a] if a in table else {(a,): Fraction(1)})
            out = self.add(out, term)
        return out

    def is_call(self, a, name):
        n = self.nodes[a]
        return n[0] == 'call' and n[1] == name

    def varname(self, a):
        n = self.nodes[a]
        return n[1] if n[0] == 'var' else None


def is_const(p):
    return all(m == () for m in p)


def occurs(needle, node, memo=None):
    memo = {} if memo is None else memo
    if node is needle:
        return True
    if id(node) in memo:
        return memo[id(node)]
    kids = node[2:] if node[0] == 'call' else (node[1:] if node[0] in ('add', 'sub', 'mul', 'div', 'neg') else ())
    r = any(occurs(needle, k, memo) for k in kids)
    memo[id(node)] = r
    return r


# comparison normal form: the subject x against y; kind 'GT' = the boundary x = y belongs to the low side
# (`x > y`, `x <= y`), 'GE' = to the high side (`x >= y`, `x < y`); side = which side the sample took
_KIND = {'>': ('GT', True), '<=': ('GT', False), '>=': ('GE', True), '<': ('GE', False)}
_MIRROR = {'>': '<', '<': '>', '>=': '<=', '<=': '>=', '==': '==', '!=': '!='}


def norm_cmp(op, outcome, subject_is_rhs=False):
    if subject_is_rhs:
        op = _MIRROR[op]
    if op not in _KIND:
        return 'EQ', None
    kind, high_if_true = _KIND[op]
    return kind, ('high' if outcome == high_if_true else 'low')


# ------------------------------------------------------------------------------------------------------------
# structures

def file_text(cell, latt, symm, sfac, atoms):
    lines = ['TITL probe C13', 'CELL 0.71073 ' + ' '.join(str(v) for v in cell), 'ZERR 4 0.001 0.001 0.001 0.01 0.01 0.01',
             f'LATT {latt}'] + [f'SYMM {s}' for s in symm] + ['SFAC ' + ' '.join(sfac), 'UNIT ' + ' '.join('4' for _ in sfac),
                                                             'FVAR 1.0']
    for name, el, xyz in atoms:
        lines.append(f'{name:<5s}{sfac.index(el) + 1:<3d}{xyz[0]:>10.6f}  {xyz[1]:>10.6f}  {xyz[2]:>10.6f}   11.00000    0.03000')
    lines += ['HKLF 4', 'END', '']
    return '\n'.join(lines)


def quiet():
    return contextlib.redirect_stdout(io.StringIO())


def build(text, n_atoms):
    from shelxfile import Shelxfile
    shx = Shelxfile()
    with quiet():
        shx.read_string(text)
    atoms = shx.atoms.all_atoms
    if len(atoms) != n_atoms:
        raise Lost(f'probe structure: {len(atoms)} atoms parsed, {n_atoms} written')
    return shx, atoms


def operators(shx):
    """the operators as the library holds them: (matrix rows, translation) as exact rationals"""
    out = []
    for s in shx.symmcards:
        M = [[Fraction(v) for v in s.matrix[j]] for j in range(3)]
        T = [Fraction(v) for v in s.trans]
        out.append((M, T))
    return out


class Run:
    """one calc_sdm() on symbolic coordinates"""

    def __init__(self, repo, shx, atoms, parts=None):
        from shelxfile.shelx.sdm import SDM
        self.shx, self.atoms = shx, atoms
        st._INTERN.clear()
        LOG.clear()
        self.P = Polys()
        self.coord = {}
        with st.Tracing(repo, {}):
            for k, a in enumerate(atoms):
                vs = [st.var(f'{c}{k}', float(v)) for c, v in zip('xyz', a.frac_coords)]
                for i, v in enumerate(vs):
                    self.coord[v.node[1]] = (k, i)
                a.frac_coords = vs
            if parts:
                from shelxfile.shelx.cards import PART
                for k, (a, pv) in enumerate(zip(atoms, parts)):
                    a.part = PART(shx, ['PART', str(pv)])
                    if a.part.n != pv:
                        raise Lost(f'PART({pv}).n is {a.part.n!r}')
                    a.part.n = SymInt(st.mk('var', f'p{k + 1}'), pv)
            LOG.clear()
            self.sdm = SDM(shx)
            with quiet():
                self.sdm.calc_sdm()
            self.log = list(LOG)
        self.items = {}
        index = {id(a): i for i, a in enumerate(atoms)}
        for it in self.sdm.sdm_list:
            self.items[(index.get(id(it.atom1)), index.get(id(it.atom2)))] = it
        self.ops = operators(shx)
        self._groups = {}

    # -- which pair / operator a distance belongs to -----------------------------------------------------------
    def dist_like(self, node):
        """node = 1 * sqrt(R) + k  ->  (atom number of the sqrt, k)"""
        p = self.P.of(node)
        S, k = None, Fraction(0)
        for m, c in p.items():
            if m == ():
                k = c
            elif len(m) == 1 and c == 1 and S is None and self.P.is_call(m[0], 'sqrt'):
                S = m[0]
            else:
                return None
        return None if S is None else (S, k)

    def group(self, S):
        """sqrt atom -> dict(s, t, n, half): distance from image n of atom s to atom t (None if it is not such a thing)"""
        if S in self._groups:
            return self._groups[S]
        self._groups[S] = None
        P = self.P
        R = P.of(P.nodes[S][2])
        floors = sorted({a for m in R for a in m if P.is_call(a, 'floor')})
        if len(floors) != 3:
            return None
        args = []
        for f in floors:
            arg = P.of(P.nodes[f][2])
            lin, const = {}, Fraction(0)
            for m, c in arg.items():
                if m == ():
                    const = c
                elif len(m) == 1 and P.varname(m[0]) in self.coord:
                    lin[self.coord[P.varname(m[0])]] = c
                else:
                    return None
            args.append((f, arg, lin, const))
        # the subtracted atom t: the only atom besides s; coefficient -1 on exactly one coordinate per argument
        cands = []
        atoms_in = sorted({k for _, _, lin, _ in args for (k, _) in lin})
        for s in atoms_in:
            for t in atoms_in:
                for n, (M, T) in enumerate(self.ops):
                    hs, used = [], set()
                    ok = True
                    for f, arg, lin, const in args:
                        hit = None
                        for i in range(3):
                            exp = {}
                            for j in range(3):
                                if M[j][i]:
                                    exp[(s, j)] = exp.get((s, j), 0) + M[j][i]
                            exp[(t, i)] = exp.get((t, i), 0) - 1
                            exp = {k: v for k, v in exp.items() if v}
                            if exp == lin:
                                hit = i
                                hs.append(const - T[i])
                                break
                        if hit is None or hit in used:
                            ok = False
                            break
                        used.add(hit)
                    if ok and len(set(hs)) == 1:
                        cands.append(dict(s=s, t=t, n=n, half=hs[0]))
        if len(cands) != 1:
            return None
        g = cands[0]
        # R depends on the coordinates only through w_i = (D_i - floor D_i) - half: substitute floor D_i = D_i - half - W_i
        table = {}
        wat = []
        for f, arg, lin, const in args:
            w = P.atom(('w', f))
            wat.append(w)
            table[f] = P.add(P.add(arg, P.const(g['half']), -1), {(w,): Fraction(1)}, -1)
        R2 = P.subst(R, table)
        for m in R2:
            if len(m) != 2 or any(a not in wat for a in m):
                return None
        self._groups[S] = g
        return g


def sides(run, want_pair):
    """all tests of the run in which a distance of `want_pair` = (s, t) is compared with a constant / another distance /
    something else; returns (const_tests, pair_tests, other_tests)"""
    consts, pairs, others = [], [], []
    P = run.P
    for ev in run.log:
        if ev[0] != 'cmp':
            continue
        _, L, op, R, outcome = ev
        dl, dr = run.dist_like(L), run.dist_like(R)
        gl = run.group(dl[0]) if dl else None
        gr = run.group(dr[0]) if dr else None
        if dl and dr and ((gl and (gl['s'], gl['t'])) != (gr and (gr['s'], gr['t'])) or not gl or not gr):
            continue        # distances of two different pairs (the sort of the list) / of something that is not such a distance
        if gl and (gl['s'], gl['t']) != want_pair:
            gl = None
        if gr and (gr['s'], gr['t']) != want_pair:
            gr = None
        if not gl and not gr:
            continue
        pl, pr = P.of(L), P.of(R)
        if R is INF:
            pr = {(): math.inf}
        if L is INF:
            pl = {(): math.inf}
        if gl and gr:
            pairs.append(dict(l=(gl['n'], dl[1]), r=(gr['n'], dr[1]), op=op, outcome=outcome))
        elif gl and is_const(pr):
            kind, side = norm_cmp(op, outcome)
            consts.append(dict(n=gl['n'], k=dl[1], c=pr.get((), Fraction(0)), kind=kind, side=side))
        elif gr and is_const(pl):
            kind, side = norm_cmp(op, outcome, True)
            consts.append(dict(n=gr['n'], k=dr[1], c=pl.get((), Fraction(0)), kind=kind, side=side))
        elif gl:
            kind, side = norm_cmp(op, outcome)
            others.append(dict(n=gl['n'], k=dl[1], poly=pr, kind=kind, side=side))
        else:
            kind, side = norm_cmp(op, outcome, True)
            others.append(dict(n=gr['n'], k=dr[1], poly=pl, kind=kind, side=side))
    return consts, pairs, others


# ------------------------------------------------------------------------------------------------------------
# radii and hydrogen test

def symbols():
    up = 'ABCDEFGHIJKLMNOPQRSTUVWXYZ'
    return [a for a in up] + [a + b.lower() for a in up for b in up]


def all_symbols_text():
    """one structure with one atom per element symbol (each atom its own scattering factor number)"""
    syms = symbols()
    lines = ['TITL probe C13 elements', 'CELL 0.71073 20.5101 21.5202 22.5303 90 98.05 90',
             'ZERR 4 0.001 0.001 0.001 0.01 0.01 0.01', 'LATT -1']
    for i in range(0, len(syms), 12):
        lines.append('SFAC ' + ' '.join(syms[i:i + 12]))
    lines += ['UNIT ' + ' '.join('1' for _ in syms[:12]), 'FVAR 1.0']
    for k, s in enumerate(syms):
        lines.append(f'{"X" + str(k):<5s}{k + 1:<4d}{0.1:>10.6f}  {0.2:>10.6f}  {0.001 * k:>10.6f}   11.00000    0.03000')
    lines += ['HKLF 4', 'END', '']
    return '\n'.join(lines)


def symbolic_radii(elements):
    """BEFORE any radius is asked for: every module-level table of the package that maps element symbols to floats gets
    symbolic values (named r:<element>) for `elements`, in place. Which of them `Atom.radius` really reads is seen
    afterwards (read_elements): the radius of a fresh atom of such an element comes out symbolic or it does not."""
    n = 0
    for name, mod in list(sys.modules.items()):
        if not (name == 'shelxfile' or name.startswith('shelxfile.')) or mod is None:
            continue
        for d in list(vars(mod).values()):
            if isinstance(d, dict) and d and all(isinstance(k, str) for k in d) and \
                    all(e in d and type(d[e]) is float for e in elements):
                for e in elements:
                    d[e] = st.Sym(st.mk('var', f'r:{e}'), d[e])
                n += 1
    return n


def read_elements(elements):
    """`Atom.radius`, `Atom.is_hydrogen` of a fresh atom per symbol, all in one freshly read structure"""
    syms = symbols()
    shx, atoms = build(all_symbols_text(), len(syms))
    radii, hyd, rsym = [], [], {}
    for s, a in zip(syms, atoms):
        if a.element != s:
            raise Lost(f'atom with scattering factor {s!r}: Atom.element is {a.element!r}')
        h1 = a.is_hydrogen
        h2 = a.ishydrogen if hasattr(a, 'ishydrogen') else h1
        if callable(h1):
            h1 = h1()
        if callable(h2):
            h2 = h2()
        if not isinstance(h1, bool) or not isinstance(h2, bool):
            raise Lost(f'Atom.is_hydrogen of {s} is {h1!r} / ishydrogen {h2!r}, not a bool')
        if h1 != h2:
            raise Lost(f'Atom.is_hydrogen ({h1}) and Atom.ishydrogen ({h2}) differ for {s}')
        if h1:
            hyd.append(s)
        try:
            r = a.radius
        except (KeyError, IndexError, ValueError):
            continue
        if isinstance(r, bool) or not isinstance(r, (int, float)) or \
                (isinstance(r, float) and not math.isfinite(float.__float__(r))):
            raise Lost(f'Atom.radius of {s} is not a finite number')
        if isinstance(r, st.Sym):
            if s in elements and r.node == st.mk('var', f'r:{s}'):
                rsym[s] = r.node
            radii.append((s, float.__repr__(r)))
        else:
            radii.append((s, repr(float(r)) if isinstance(r, float) else repr(r)))
    if not radii:
        raise Lost('no element has a covalent radius')
    return radii, hyd, (rsym if len(rsym) == len(elements) else {})


# ------------------------------------------------------------------------------------------------------------
# the numeric thresholds

# P2(1)2(1)2(1) (no inversion: for an operator with matrix -1 the distances A..B and B..A are the same polynomial and
# could not be told apart), all four images of either atom lie between 3.0 and 4.9 Å from the other atom and from the
# atom itself; the shortest contact C1..N2 is made by operator 3, the identity is second
REGULAR = dict(cell=(6.1101, 6.7202, 7.3303, 90, 90, 90), latt=-1,
               symm=['1/2-X, -Y, 1/2+Z', '-X, 1/2+Y, 1/2-Z', '1/2+X, 1/2-Y, -Z'],
               atoms=[('C1', 'C', (0.9342, 0.8352, 0.3104)), ('N2', 'N', (0.9153, 0.5353, 0.6600))])
# P1, 7 Å apart in a 20 Å cell
FAR = dict(cell=(20.5101, 21.5202, 22.5303, 90, 98.05, 90), latt=-1, symm=[],
           atoms=[('C1', 'C', (0.12, 0.23, 0.34)), ('N2', 'N', (0.12 + 7.0 / 20.5101, 0.23, 0.34))])


# P1, 0.004 Å apart: two atoms on (nearly) the same site
NEAR = dict(cell=(20.5101, 21.5202, 22.5303, 90, 98.05, 90), latt=-1, symm=[],
            atoms=[('C1', 'C', (0.12, 0.23, 0.34)), ('N2', 'N', (0.12 + 0.004 / 20.5101, 0.23, 0.34))])


def one(xs, what):
    xs = sorted(set(xs))
    if len(xs) != 1:
        raise Lost(f'{what}: ' + (', '.join(str(x) for x in xs) if xs else 'not found'))
    return xs[0]


def read_consts(repo, rsym):
    got = {}
    t = REGULAR
    shx, atoms = build(file_text(t['cell'], t['latt'], t['symm'], ['C', 'N'], t['atoms']), 2)
    reg = Run(repo, shx, atoms)
    nops = len(reg.ops)
    if nops != 4:
        raise Lost(f'probe structure P212121 has {nops} operators in shx.symmcards, 4 expected')
    if any(ev[0] == 'escape' for ev in reg.log):
        raise Lost('a symbolic distance/coordinate is converted with int()/round()')
    if set(reg.items) != {(0, 0), (0, 1), (1, 0), (1, 1)}:
        raise Lost(f'probe structure: items for the pairs {sorted(reg.items)}, all four expected')
    if any(it.covalent for it in reg.items.values()):
        raise Lost('probe structure: a contact of more than 2.2 Å is labelled covalent')
    halves = set()
    consts, pairs, others = {}, {}, {}
    for pr in [(0, 1), (1, 0), (0, 0), (1, 1)]:
        consts[pr], pairs[pr], others[pr] = sides(reg, pr)
    for g in reg._groups.values():
        if g:
            halves.add(g['half'])
    got['half'] = one(halves, 'the shift of the wrap (argument of floor minus the difference vector)')
    for pr in [(0, 1), (1, 0)]:
        ns = {c['n'] for c in consts[pr]}
        if ns != set(range(nops)):
            raise Lost(f'pair {pr}: distances of the operators {sorted(ns)} are compared with constants, expected all of 0..{nops - 1}')
    for pr in consts:
        for c in consts[pr]:
            if c['kind'] != 'GT':
                raise Lost(f'the distance is compared with {float(c["c"])} by a test whose boundary case goes the other way '
                           f'than `d > c` / `d <= c` (or by ==)')
    # the far contact
    t = FAR
    shx2, atoms2 = build(file_text(t['cell'], t['latt'], t['symm'], ['C', 'N'], t['atoms']), 2)
    far = Run(repo, shx2, atoms2)
    if len(far.ops) != 1:
        raise Lost(f'probe structure P1 has {len(far.ops)} operators')
    if far.items:
        raise Lost(f'probe structure: a contact of 7 Å gets an item {sorted(far.items)}')
    fconsts, _, _ = sides(far, (0, 1))
    for c in fconsts:
        if c['kind'] != 'GT':
            raise Lost(f'the distance is compared with {float(c["c"])} by a test with the boundary on the other side')
    main = consts[(0, 1)]
    low = lambda cs, c: all(x['side'] == 'low' for x in cs if x['c'] == c) and any(x['c'] == c for x in cs)   # noqa: E731
    high = lambda cs, c: all(x['side'] == 'high' for x in cs if x['c'] == c) and any(x['c'] == c for x in cs)  # noqa: E731
    allc = sorted({x['c'] for x in main})
    cut = one([c for c in allc if low(main, c) and high(fconsts, c)],
              'constant that a contact in range stays below and a 7 Å contact exceeds (cut)')
    # two atoms 0.004 Å apart
    t = NEAR
    shx3, atoms3 = build(file_text(t['cell'], t['latt'], t['symm'], ['C', 'N'], t['atoms']), 2)
    near = Run(repo, shx3, atoms3)
    nconsts, _, _ = sides(near, (0, 1))
    for c in nconsts:
        if c['kind'] != 'GT':
            raise Lost(f'the distance is compared with {float(c["c"])} by a test with the boundary on the other side')
    eps = one([c for c in allc if c != cut and high(main, c) and low(nconsts, c)],
              'constant that a contact in range exceeds and a contact of 0.004 Å does not (eps)')
    if (0, 1) in near.items or (1, 0) in near.items:
        raise Lost('probe structure: a contact of 0.004 Å gets an item')
    rest = [c for c in allc if c not in (cut, eps)]
    if rest:
        big = one(rest, 'start value of the running minimum (the one further constant the distance is compared with)')
        if not low(main, big):
            raise Lost(f'the distances are not below the start value {float(big)} of the running minimum')
    else:
        big = math.inf      # no start value: the first operator in range is taken without a comparison (None sentinel)
    for pr in consts:
        for x in consts[pr]:
            if x['c'] not in (cut, eps, big):
                raise Lost(f'pair {pr}, operator {x["n"]}: the distance is also compared with {float(x["c"])}; the model has no such test')
    for x in fconsts + nconsts:
        if x['c'] not in (cut, eps, big):
            raise Lost(f'the distance is also compared with {float(x["c"])}; the model has no such test')
    # subjects: cut tests the plain distance, eps / running minimum the handicapped one
    biases = set()
    for pr in consts:
        for x in consts[pr]:
            if x['c'] == cut:
                if x['k'] != 0:
                    raise Lost(f'the cut {float(cut)} is applied to distance + {float(x["k"])}, the model applies it to the distance')
            elif x['n'] == 0:
                if x['k'] != 0:
                    raise Lost(f'operator 0 takes part with distance + {float(x["k"])}, the model has no handicap for the first operator')
            else:
                biases.add(x['k'])
    for pr in pairs:
        for x in pairs[pr]:
            for n, k in (x['l'], x['r']):
                if n == 0:
                    if k != 0:
                        raise Lost(f'operator 0 takes part with distance + {float(k)}')
                else:
                    biases.add(k)
    got['bias'] = one(biases, 'handicap of every operator but the first')
    # the running-minimum test between two operators: the later one is the subject; a tie goes to the later one
    seen_pair_tests = 0
    for pr in pairs:
        for x in pairs[pr]:
            (nl, _), (nr, _) = x['l'], x['r']
            if nl == nr:
                continue
            kind, _side = norm_cmp(x['op'], x['outcome'], subject_is_rhs=nr > nl)
            if kind != 'GT':
                raise Lost('the running minimum is compared by a test whose boundary case (equal handicapped distances) goes the '
                           'other way than `mind >= b`')
            seen_pair_tests += 1
    if not seen_pair_tests:
        raise Lost('no comparison between the distances of two operators of one pair was seen (running minimum)')
    if big == math.inf:
        # Start value +infinity (or none at all). The model's start value is a number; every handicapped distance that
        # reaches the test is at most cut + bias, so every start value above that decides exactly as +infinity does.
        got['note'] = 'the running minimum starts from +infinity; written as cut + bias + 1, which decides identically'
        big = cut + got['bias'] + 1
    # design check: every operator of the two mixed pairs went through the cut test and through the eps test
    for pr in [(0, 1), (1, 0)]:
        for n in range(nops):
            cs = {x['c'] for x in consts[pr] if x['n'] == n}
            if cut not in cs or eps not in cs:
                raise Lost(f'pair {pr}, operator {n}: the distance is not compared with both {float(cut)} and {float(eps)}')
    got.update(cut=cut, eps=eps, big=big)
    # the bond limit: reported distance against factor * (r1 + r2)
    if not rsym:
        raise Lost('the covalent radii can not be made symbolic (no table of the package maps C, N, H to the radii the atoms report)')
    facs = set()
    for pr in [(0, 1), (1, 0), (0, 0), (1, 1)]:
        lim = [o for o in others[pr]]
        if not lim:
            raise Lost(f'pair {pr}: the reported distance is not compared with a bond limit')
        for o in lim:
            if o['kind'] != 'GE':
                raise Lost('the bond test is not `distance < limit` (boundary case goes the other way)')
            p = o['poly']
            e1, e2 = reg.atoms[pr[0]].element, reg.atoms[pr[1]].element
            coef = {}
            for m, c in p.items():
                if len(m) == 1 and reg.P.nodes[m[0]] in (rsym.get(e1), rsym.get(e2)):
                    coef[reg.P.nodes[m[0]][1]] = c
                else:
                    raise Lost(f'pair {pr}: the bond limit is not a multiple of r1 + r2')
            exp = {}
            for e in (e1, e2):
                exp[f'r:{e}'] = exp.get(f'r:{e}', 0) + 1
            fs = {coef.get(k, Fraction(0)) / v for k, v in exp.items()}
            if len(fs) != 1 or set(coef) != set(exp):
                raise Lost(f'pair {pr}: the bond limit is not a multiple of r1 + r2')
            facs.add(fs.pop())
    got['factor'] = one(facs, 'bond factor')
    return got


# ------------------------------------------------------------------------------------------------------------
# the PART / hydrogen condition

def bond_struct(h1, h2):
    # P1, 20 Å cell, 0.85 Å apart: inside every bond limit (H..H: 1.08), far above eps
    e1, e2 = ('H' if h1 else 'C'), ('H' if h2 else 'N')
    return dict(cell=(20.5101, 21.5202, 22.5303, 90, 98.05, 90), latt=-1, symm=[], sfac=['C', 'N', 'H'],
                atoms=[('A1', e1, (0.12, 0.23, 0.34)), ('B2', e2, (0.12 + 0.85 / 20.5101, 0.23, 0.34))])


def bond_run(repo, h1, h2, p1, p2):
    t = bond_struct(h1, h2)
    shx, atoms = build(file_text(t['cell'], t['latt'], t['symm'], t['sfac'], t['atoms']), 2)
    if (bool(atoms[0].is_hydrogen), bool(atoms[1].is_hydrogen)) != (h1, h2):
        raise Lost(f'probe atoms {atoms[0].element}, {atoms[1].element}: is_hydrogen is not ({h1}, {h2})')
    run = Run(repo, shx, atoms, parts=(p1, p2))
    it = run.items.get((0, 1))
    it2 = run.items.get((1, 0))
    if it is None or it2 is None or not isinstance(it.dist, st.Sym) or not isinstance(it2.dist, st.Sym):
        raise Lost('probe structure: no item for a contact of 0.85 Å')
    if not isinstance(it.covalent, bool):
        raise Lost(f'SDMItem.covalent is {it.covalent!r}')
    dab, dba = it.dist.node, it2.dist.node
    if dab is dba:
        raise Lost('the distances A..B and B..A are the same expression')
    # the pair phase: everything before the distances of the two pairs are compared with each other (the sort of the
    # list; what follows — molecule numbers, symmetry needed by grow() — is not the bond criterion). Both directions
    # A..B and B..A are evaluated in it; their tests on the PART numbers are read as ONE sequence (a test asked twice
    # is dropped below), so that it does not matter how the code interleaves distance and bond tests.
    end = None
    seen_ab = False
    for i, ev in enumerate(run.log):
        if ev[0] != 'cmp':
            continue
        memo = {}
        inab = occurs(dab, ev[1], memo) or occurs(dab, ev[3], memo)
        memo = {}
        inba = occurs(dba, ev[1], memo) or occurs(dba, ev[3], memo)
        seen_ab = seen_ab or inab
        if inab and inba:
            end = i
            break
    if not seen_ab:
        raise Lost('no test on the distance of the probe pair')
    window = run.log[:end]
    path, decided = [], {}
    limit = 'absent'
    for ev in window:
        if ev[0] == 'iescape':
            raise Lost(f'the bond criterion uses a PART number through {ev[2]}; only + - * and comparisons are followed')
        if ev[0] == 'icmp':
            test, outcome = canon_test(ev[1], ev[2], ev[3], ev[4])
            if test in decided:
                if decided[test] != outcome:
                    raise Lost('the same test on the PART numbers comes out differently within one evaluation')
                continue      # asked again (e.g. `a and b` hands `a` on to `not`): no new information
            decided[test] = outcome
            path.append((test, outcome))
        if ev[0] == 'cmp':
            dl, dr = run.dist_like(ev[1]), run.dist_like(ev[3])
            if dl and run.P.nodes[dl[0]] is not dab:
                dl = None
            if dr and run.P.nodes[dr[0]] is not dab:
                dr = None
            other = ev[3] if dl else (ev[1] if dr else None)
            if other is None or (dl and dr):
                continue
            p = run.P.of(other)
            if is_const(p):
                c = p.get((), Fraction(0))
                # cut / eps / big have the boundary on the low side; the bond test `d < limit` on the high side
                kind, _ = norm_cmp(ev[2], ev[4], subject_is_rhs=not dl)
                if kind == 'GE':
                    limit = c
            elif any(run.P.varname(a) and run.P.varname(a).startswith('r:') for m in p for a in m):
                limit = 'radii'
    return dict(path=path, allowed=it.covalent, limit=limit)


def _okey(n):
    """constants last"""
    return (n[0] == 'int' or (n[0] == 'neg' and n[1][0] == 'int'), repr(n))


def icanon(n):
    """operands of + and * in a fixed order"""
    if n[0] in ('add', 'mul'):
        a, b = icanon(n[1]), icanon(n[2])
        return st.mk(n[0], *sorted((a, b), key=_okey))
    if n[0] in ('sub',):
        return st.mk('sub', icanon(n[1]), icanon(n[2]))
    if n[0] == 'neg':
        return st.mk('neg', icanon(n[1]))
    return n


def canon_test(lhs, op, rhs, outcome):
    """one spelling per test: relation ==, < or <= with the operands in a fixed order; `a != b`, `b > a`, `not a <= b` … are
    the same test with the outcome flipped accordingly"""
    if op == '!=':
        op, outcome = '==', not outcome
    elif op == '>':
        op, outcome = '<=', not outcome
    elif op == '>=':
        op, outcome = '<', not outcome
    x, y = icanon(lhs), icanon(rhs)
    if _okey(x) > _okey(y):
        if op == '==':
            x, y = y, x
        elif op == '<':        # x < y  ==  not (y <= x)
            x, y, op, outcome = y, x, '<=', not outcome
        else:                  # x <= y  ==  not (y < x)
            x, y, op, outcome = y, x, '<', not outcome
    return (x, op, y), outcome


class Tree:
    """decision tree over tests (lhs, op, rhs) of integer expressions in p1, p2; leaves True/False"""

    def __init__(self):
        self.root = None

    def insert(self, path, leaf, where):
        def go(node, i):
            if i == len(path):
                if node is None:
                    return ('leaf', leaf)
                if node[0] != 'leaf':
                    raise Lost(f'bond criterion {where}: the sequence of tests on the PART numbers is not a function of their outcomes')
                if node[1] != leaf:
                    raise Lost(f'bond criterion {where}: same hydrogen flags, same outcomes of all tests on the PART numbers, '
                               f'different result (it depends on something else)')
                return node
            test, outcome = path[i]
            if node is None:
                node = ('test', test, {})
            if node[0] != 'test' or node[1] != test:
                raise Lost(f'bond criterion {where}: the sequence of tests on the PART numbers is not a function of their outcomes')
            node[2][outcome] = go(node[2].get(outcome), i + 1)
            return node
        self.root = go(self.root, 0)


def simplify(node):
    if node[0] == 'leaf':
        return node
    kids = {k: simplify(v) for k, v in node[2].items()}
    if len(kids) == 2 and kids[True] == kids[False]:
        return kids[True]
    return ('test', node[1], kids)


def missing_sides(node, out, trail=()):
    if node[0] == 'leaf':
        return
    for side in (True, False):
        if side not in node[2]:
            out.append((node[1], side, trail))
        else:
            missing_sides(node[2][side], out, trail + ((node[1], side),))


def iexpr(n):
    k = n[0]
    if k == 'var':
        return n[1]
    if k == 'int':
        return f'({n[1]} : Int)'
    if k == 'neg':
        return f'(-{iexpr(n[1])})'
    if k in ('add', 'sub', 'mul'):
        return f'({iexpr(n[1])} {dict(add="+", sub="-", mul="*")[k]} {iexpr(n[2])})'
    raise Lost(f'integer expression {n[0]} in the bond criterion')


def lean_tree(node, indent):
    if node[0] == 'leaf':
        return 'true' if node[1] else 'false'
    lhs, op, rhs = node[1]
    rel = {'==': '=', '!=': '≠', '<': '<', '<=': '≤', '>': '>', '>=': '≥'}[op]
    pad = ' ' * indent
    return (f'if {iexpr(lhs)} {rel} {iexpr(rhs)} then\n{pad}  {lean_tree(node[2][True], indent + 2)}\n'
            f'{pad}else\n{pad}  {lean_tree(node[2][False], indent + 2)}')


def consts_of(node, acc):
    if node[0] == 'int':
        acc.add(node[1])
    elif node[0] == 'neg' and node[1][0] == 'int':
        acc.add(-node[1][1])
    else:
        for k in node[1:]:
            if isinstance(k, tuple):
                consts_of(k, acc)


def is_order_atom(test):
    """a test whose outcome depends only on how p1, p2 and the constants are ordered: `t REL t'` or `t * t' REL 0`
    with t, t' among p1, p2 and integer constants"""
    def term(n):
        return n[0] in ('var', 'int') or (n[0] == 'neg' and n[1][0] == 'int')
    x, _, y = test
    if term(x) and term(y):
        return True
    zero = y == st.mk('int', 0)
    return zero and x[0] == 'mul' and term(x[1]) and term(x[2])


def tests_of(node, acc):
    if node[0] == 'test':
        acc.append(node[1])
        for k in node[2].values():
            tests_of(k, acc)


def prune(node):
    """drop the tests one side of which was never taken (only called when that side is known to be impossible)"""
    if node[0] == 'leaf':
        return node
    kids = {k: prune(v) for k, v in node[2].items()}
    if len(kids) == 1:
        return next(iter(kids.values()))
    return ('test', node[1], kids)


def read_bond(repo):
    values = set(range(-2, 4))
    trees, nobonds = {}, set()
    any_forbidden = False
    for round_ in range(3):
        trees = {}
        seen_consts = {0}
        for h1 in (False, True):
            for h2 in (False, True):
                tr = Tree()
                for p1 in sorted(values):
                    for p2 in sorted(values):
                        r = bond_run(repo, h1, h2, p1, p2)
                        where = f'(hydrogen flags {h1}, {h2}; PART {p1}, {p2})'
                        tr.insert(r['path'], r['allowed'], where)
                        for (lhs, _, rhs), _o in r['path']:
                            consts_of(lhs, seen_consts)
                            consts_of(rhs, seen_consts)
                        if r['allowed']:
                            if r['limit'] not in ('radii',):
                                raise Lost(f'bond criterion {where}: the contact is labelled covalent but its distance was not '
                                           f'compared with a limit made of the radii')
                        else:
                            any_forbidden = True
                            if r['limit'] == 'radii':
                                raise Lost(f'bond criterion {where}: a contact of 0.85 Å below the limit of the radii is not covalent')
                            nobonds.add(Fraction(0) if r['limit'] == 'absent' else r['limit'])
                trees[(h1, h2)] = tr
        # all integers from two below the smallest to two above the largest constant the code compares a PART number with
        full = set(range(min(seen_consts) - 2, max(seen_consts) + 3))
        if full <= values:
            break
        if len(full | values) > 16:
            raise Lost(f'bond criterion: PART numbers are compared with constants from {min(seen_consts)} to {max(seen_consts)}')
        values |= full
    else:
        raise Lost('bond criterion: the constants PART numbers are compared with keep changing with the PART numbers tried')
    text = []
    for (h1, h2), tr in trees.items():
        miss = []
        missing_sides(tr.root, miss)
        root = tr.root
        if miss:
            # Every way two integers can be ordered relative to each other and to the constants occurs among the pairs
            # tried (all pairs from two below the smallest to two above the largest constant). If every test is decided by
            # that order alone, a side no pair takes can not be taken by any pair of integers, and the test is dropped.
            every = []
            tests_of(root, every)
            odd = [t for t in every if not is_order_atom(t)]
            if odd:
                (lhs, op, rhs), side, _ = miss[0]
                raise Lost(f'bond criterion: the test {iexpr(lhs)} {op} {iexpr(rhs)} never comes out {side} for PART numbers in '
                           f'{min(values)}..{max(values)} (hydrogen flags {h1}, {h2}), and {iexpr(odd[0][0])} {odd[0][1]} '
                           f'{iexpr(odd[0][2])} is not a plain comparison: that side is not known')
            root = prune(root)
        text.append((h1, h2, simplify(root)))
    lines = ['match h1, h2 with']
    for h1, h2, root in text:
        lines.append(f'  | {str(h1).lower()}, {str(h2).lower()} =>\n    ' + lean_tree(root, 4))
    nobond = Fraction(0)
    if any_forbidden:
        nobond = one(nobonds, 'limit used where no bond is allowed')
    return '\n'.join(lines), nobond


# ------------------------------------------------------------------------------------------------------------

def frac(x):
    x = Fraction(x)
    return str(x.numerator) if x.denominator == 1 else f'{x.numerator}/{x.denominator}'


def main(repo):
    out = dict(lost=[])
    try:
        st.import_repo(repo)
    except Exception as e:
        out['lost'].append(f'the package does not import: {e!r}')
        return out

    def section(name, fn):
        try:
            return fn()
        except Lost as e:
            out['lost'].append(f'{name}: {e}')
        except Exception as e:
            traceback.print_exc(file=sys.stderr)
            out['lost'].append(f'{name}: running the code failed: {type(e).__name__}: {e}')
        return None

    probe_elements = ['C', 'N', 'H']
    section('radii', lambda: symbolic_radii(probe_elements))
    el = section('radii / hydrogen test', lambda: read_elements(probe_elements))
    rsym = {}
    if el:
        out['radii'], out['hyd'], rsym = el
    c = section('thresholds of calc_sdm', lambda: read_consts(repo, rsym))
    b = section('bond criterion', lambda: read_bond(repo))
    if b:
        out['bond'] = b[0]
    if c and b:
        c['nobond'] = b[1]
        note = c.pop('note', None)
        if note:
            out['note'] = note
        out['consts'] = {k: frac(v) for k, v in c.items()}
    return out


if __name__ == '__main__':
    ap = argparse.ArgumentParser()
    ap.add_argument('--repo', default='/repo')
    a = ap.parse_args()
    real_stdout = sys.stdout
    sys.stdout = io.StringIO()
    try:
        res = main(str(Path(a.repo).resolve()))
    finally:
        sys.stdout = real_stdout
    print(json.dumps(res, indent=1))

"""
C06 — constants of the line wrapper and of the multi-line printers, read off the source with `ast`.

  misc.py  wrap_line            -> shortMax (longest line returned unchanged), width / indents / flags handed to
                                   textwrap.wrap, the suffix appended to every non-final piece (' =\\n') and the
                                   string the pieces are joined with (' ')
  cards.py FVARs.__str__        -> group size (7), line prefix ('FVAR   '), value separator ('   ')
  cards.py SFACTable._extend_sfac_text -> line prefix ('SFAC '), element separator ('  ')

Written to lean/ShelxModel/Extracted/Wrap.lean (namespace Shelx.Extracted.Wrap). `ShelxProps/C06.lean` proves
`consts_ok` about exactly these definitions by `decide`, so an edited width breaks the proof on the next run.
"""
import ast

import extract


def lean_chars(s: str) -> str:
    def one(c):
        if c == '\n':
            return "'\\n'"
        if c == '\t':
            return "'\\t'"
        if c == "'":
            return "'\\''"
        if c == '\\':
            return "'\\\\'"
        if 32 <= ord(c) < 127:
            return f"'{c}'"
        return f"Char.ofNat {ord(c)}"
    return '([' + ', '.join(one(c) for c in s) + '] : List Char)'


def const_env(fn):
    """simple `name = <int/str constant expression>` assignments of a function body (first assignment wins)"""
    env = {}
    for node in ast.walk(fn):
        if isinstance(node, ast.Assign) and len(node.targets) == 1 and isinstance(node.targets[0], ast.Name):
            try:
                v = ev(node.value, env)
            except ValueError:
                continue
            env.setdefault(node.targets[0].id, v)
    return env


def ev(node, env):
    if isinstance(node, ast.Constant) and isinstance(node.value, (int, str, bool)):
        return node.value
    if isinstance(node, ast.Name) and node.id in env:
        return env[node.id]
    if isinstance(node, ast.BinOp) and isinstance(node.op, (ast.Add, ast.Sub, ast.Mult)):
        a, b = ev(node.left, env), ev(node.right, env)
        if isinstance(a, bool) or isinstance(b, bool) or type(a) is not type(b):
            raise ValueError
        if isinstance(node.op, ast.Add):
            return a + b
        if isinstance(a, int):
            return a - b if isinstance(node.op, ast.Sub) else a * b
    if isinstance(node, ast.UnaryOp) and isinstance(node.op, ast.USub):
        v = ev(node.operand, env)
        if isinstance(v, int):
            return -v
    raise ValueError(ast.dump(node))


def is_len_of(node, name=None):
    return (isinstance(node, ast.Call) and isinstance(node.func, ast.Name) and node.func.id == 'len' and len(node.args) == 1
            and isinstance(node.args[0], ast.Name) and (name is None or node.args[0].id == name))


def read_wrap_line(repo):
    tree = extract.parse(repo, 'shelxfile/misc/misc.py')
    fn = extract.find(tree, 'wrap_line')
    if fn is None:
        raise ValueError('misc.wrap_line not found')
    param = fn.args.args[0].arg
    env = const_env(fn)
    c = dict(initial_indent='', subsequent_indent='', drop_whitespace=True, replace_whitespace=True, break_on_hyphens=True,
             break_long_words=True, expand_tabs=True, width=70)
    # the textwrap call
    call = None
    for n in ast.walk(fn):
        if isinstance(n, ast.Call):
            f = n.func
            nm = f.attr if isinstance(f, ast.Attribute) else f.id if isinstance(f, ast.Name) else None
            if nm == 'wrap' and (not isinstance(f, ast.Attribute) or (isinstance(f.value, ast.Name) and f.value.id == 'textwrap')):
                call = n
    if call is None:
        raise ValueError('wrap_line: no textwrap.wrap(...) call')
    if len(call.args) >= 2:
        c['width'] = ev(call.args[1], env)
    if len(call.args) > 2:
        raise ValueError('wrap_line: more than two positional arguments to textwrap.wrap')
    for kw in call.keywords:
        if kw.arg not in c:
            raise ValueError(f'wrap_line: textwrap option {kw.arg} is not modelled')
        c[kw.arg] = ev(kw.value, env)
    if not isinstance(c['width'], int) or isinstance(c['width'], bool) or c['width'] < 0:
        raise ValueError('wrap_line: width is not a natural number')
    # early return:  if len(line) < K: ... return line
    short = None
    for n in fn.body:
        if isinstance(n, ast.If) and isinstance(n.test, ast.Compare) and len(n.test.ops) == 1 \
                and any(isinstance(x, ast.Return) for x in n.body) and not n.orelse:
            l, op, r = n.test.left, n.test.ops[0], n.test.comparators[0]
            if is_len_of(l, param):
                k = ev(r, env)
                short = k - 1 if isinstance(op, ast.Lt) else k if isinstance(op, ast.LtE) else None
            elif is_len_of(r, param):
                k = ev(l, env)
                short = k - 1 if isinstance(op, ast.Gt) else k if isinstance(op, ast.GtE) else None
            break
    if short is None or short < 0:
        raise ValueError('wrap_line: early return `if len(line) < K: return line` not recognised')
    # suffix of every non-final piece:  ln += ' =\n'   (or ln = ln + ' =\n')
    suffix = None
    for n in ast.walk(fn):
        if isinstance(n, ast.AugAssign) and isinstance(n.op, ast.Add):
            try:
                v = ev(n.value, env)
            except ValueError:
                continue
            if isinstance(v, str):
                suffix = v
        elif isinstance(n, ast.Assign) and isinstance(n.value, ast.BinOp) and isinstance(n.value.op, ast.Add) \
                and isinstance(n.value.left, ast.Name) and isinstance(n.targets[0], ast.Name) and n.targets[0].id == n.value.left.id:
            try:
                v = ev(n.value.right, env)
            except ValueError:
                continue
            if isinstance(v, str):
                suffix = v
    if suffix is None:
        raise ValueError("wrap_line: suffix `ln += ' =\\n'` not recognised")
    # the list the pieces are appended to, and the string it is joined with
    lists = {n.func.value.id for n in ast.walk(fn) if isinstance(n, ast.Call) and isinstance(n.func, ast.Attribute)
             and n.func.attr == 'append' and isinstance(n.func.value, ast.Name)}
    sep = None
    for n in ast.walk(fn):
        if isinstance(n, ast.Call) and isinstance(n.func, ast.Attribute) and n.func.attr == 'join' and len(n.args) == 1 \
                and isinstance(n.args[0], ast.Name) and n.args[0].id in lists:
            v = ev(n.func.value, env)
            if isinstance(v, str):
                sep = v
    if sep is None:
        raise ValueError("wrap_line: `' '.join(newline)` not recognised")
    c.update(short=short, suffix=suffix, sep=sep)
    return c


def read_fvars(repo):
    tree = extract.parse(repo, 'shelxfile/shelx/cards.py')
    fn = extract.find(tree, 'FVARs.__str__')
    if fn is None:
        raise ValueError('FVARs.__str__ not found')
    env = const_env(fn)
    size = prefix = sep = linesep = None
    for n in ast.walk(fn):
        if isinstance(n, ast.Call) and isinstance(n.func, ast.Name) and n.func.id == 'chunks' and len(n.args) == 2:
            size = ev(n.args[1], env)
        if isinstance(n, ast.ListComp):
            e = n.elt
            if isinstance(e, ast.Call) and isinstance(e.func, ast.Attribute) and e.func.attr == 'join' and isinstance(e.func.value, ast.Constant):
                sep = e.func.value.value
            if isinstance(e, ast.BinOp) and isinstance(e.op, ast.Add) and isinstance(e.left, ast.Constant) and isinstance(e.left.value, str):
                prefix = e.left.value
        if isinstance(n, ast.Return) and isinstance(n.value, ast.Call) and isinstance(n.value.func, ast.Attribute) \
                and n.value.func.attr == 'join' and isinstance(n.value.func.value, ast.Constant):
            linesep = n.value.func.value.value
    if not isinstance(size, int) or isinstance(size, bool) or size < 0 or None in (prefix, sep) or linesep != '\n':
        raise ValueError(f'FVARs.__str__ not recognised (size={size!r}, prefix={prefix!r}, sep={sep!r}, linesep={linesep!r})')
    return dict(size=size, prefix=prefix, sep=sep)


def read_sfac(repo):
    tree = extract.parse(repo, 'shelxfile/shelx/cards.py')
    fn = extract.find(tree, 'SFACTable._extend_sfac_text')
    if fn is None:
        raise ValueError('SFACTable._extend_sfac_text not found')
    for n in ast.walk(fn):
        if isinstance(n, ast.JoinedStr) and len(n.values) == 2 and isinstance(n.values[0], ast.Constant) \
                and isinstance(n.values[1], ast.FormattedValue):
            head = n.values[0].value
            v = n.values[1].value
            if isinstance(v, ast.Call) and isinstance(v.func, ast.Attribute) and v.func.attr == 'join' \
                    and isinstance(v.func.value, ast.Constant) and head.startswith('\n'):
                return dict(prefix=head[1:], sep=v.func.value.value)
    raise ValueError("SFACTable._extend_sfac_text: f\"\\nSFAC {'  '.join(elements)}\" not recognised")


LAST_KNOWN = dict(
    wrap=dict(short=0, width=0, initial_indent='', subsequent_indent='', suffix='', sep='', drop_whitespace=True,
              break_on_hyphens=True, break_long_words=True, expand_tabs=True, replace_whitespace=True),
    fvar=dict(size=0, prefix='', sep=''), sfac=dict(prefix='', sep=''))


def emit(out, w, fv, sf):
    b = lambda x: 'true' if x else 'false'
    text = extract.HEADER + f'''namespace Shelx.Extracted.Wrap

/-- misc.wrap_line: a line of at most this many characters is returned unchanged -/
def shortMax : Nat := {w['short']}
/-- textwrap.wrap(width=...) -/
def width : Nat := {w['width']}
def initialIndent : List Char := {lean_chars(w['initial_indent'])}
def indent : List Char := {lean_chars(w['subsequent_indent'])}
/-- appended to every piece but the last -/
def suffix : List Char := {lean_chars(w['suffix'])}
/-- the pieces (with suffix) are joined with this string -/
def sep : List Char := {lean_chars(w['sep'])}
def dropWhitespace : Bool := {b(w['drop_whitespace'])}
def breakOnHyphens : Bool := {b(w['break_on_hyphens'])}
def breakLongWords : Bool := {b(w['break_long_words'])}

/-- FVARs.__str__ -/
def fvarChunk : Nat := {fv['size']}
def fvarPrefix : List Char := {lean_chars(fv['prefix'])}
def fvarSep : List Char := {lean_chars(fv['sep'])}

/-- SFACTable._extend_sfac_text -/
def sfacPrefix : List Char := {lean_chars(sf['prefix'])}
def sfacSep : List Char := {lean_chars(sf['sep'])}

end Shelx.Extracted.Wrap
'''
    extract.write_if_changed(out / 'Wrap.lean', text)


@extract.extractor
def tables_c06(repo, out):
    lost = []
    parts = {}
    for key, fn in (('wrap', read_wrap_line), ('fvar', read_fvars), ('sfac', read_sfac)):
        try:
            parts[key] = fn(repo)
        except (ValueError, OSError, SyntaxError, IndexError, AttributeError, TypeError) as e:
            lost.append(dict(props=['C06'], what=f'tables_c06/{key}: {e}'))
            parts[key] = LAST_KNOWN[key]
    emit(out, parts['wrap'], parts['fvar'], parts['sfac'])
    return lost


def _fallback(out):
    emit(out, LAST_KNOWN['wrap'], LAST_KNOWN['fvar'], LAST_KNOWN['sfac'])


tables_c06.props = ['C06']
tables_c06.fallback = _fallback

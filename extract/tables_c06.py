"""
C06 — constants of the line wrapper and of the multi-line printers, read off the BEHAVIOUR of the working tree.

The reading is done by `extract/probe_c06.py` in an interpreter of its own (it imports the package from the tree under
test, with `textwrap.TextWrapper.wrap` replaced by a recorder, runs the three functions on probe inputs and solves for
the constants; see its docstring). It does not look at how the code is spelled, so helper functions, module constants,
a module-level TextWrapper, `glue.join(pieces)` instead of an append loop, comprehension vs. loop, f-string vs. `+` …
all read the same; code that no longer has the SHAPE the model has (one length threshold, one call of the text wrapper
with the whole line and fixed options, one glue between the pieces; prefix + sep.join(group) per group of fixed size)
is reported as lost, with the probe on which the shape broke.

  misc.wrap_line                -> shortMax (longest line returned unchanged), width / indents / flags of the
                                   TextWrapper at the time `wrap` is called, the glue between two pieces split into
                                   suffix (up to and including its last line break: ' =\n') and sep (the rest: ' ')
  str(Shelxfile.fvars)          -> group size (7), line prefix ('FVAR   '), value separator ('   ')
  repr(Shelxfile.sfac_table)    -> line prefix ('SFAC '), element separator ('  ')

Written to lean/ShelxModel/Extracted/Wrap.lean (namespace Shelx.Extracted.Wrap). `ShelxProps/C06.lean` proves
`consts_ok` about exactly these definitions by `decide`, so an edited width breaks the proof on the next run.
"""
import json
import subprocess
import sys
from pathlib import Path

import extract

HERE = Path(__file__).resolve().parent


def lean_chars(s: str) -> str:
    def one(c):
        if c == '\n':
            return "'\\n'"
        if c == '\t':
            return "'\\t'"
        if c == "'":
            return "'\\''"
        if c == '\\':
            return "'\\\\'"
        if 32 <= ord(c) < 127:
            return f"'{c}'"
        return f"Char.ofNat {ord(c)}"
    return '([' + ', '.join(one(c) for c in s) + '] : List Char)'


def run_probe(repo):
    """the constants as the working tree BEHAVES (extract/probe_c06.py, in an interpreter of its own)"""
    p = subprocess.run([sys.executable, str(HERE / 'probe_c06.py'), '--repo', str(repo)],
                       stdout=subprocess.PIPE, stderr=subprocess.PIPE, text=True, timeout=300,
                       env={'PATH': '/usr/bin:/bin', 'PYTHONDONTWRITEBYTECODE': '1', 'PYTHONHASHSEED': '0'})
    if p.returncode != 0:
        raise ValueError(f'probe_c06.py failed: {p.stderr[-400:]}')
    try:
        return json.loads(p.stdout[p.stdout.index('{'):])
    except ValueError:
        raise ValueError(f'probe_c06.py printed no result: {p.stdout[-200:]} {p.stderr[-200:]}')


def is_nat(x):
    return isinstance(x, int) and not isinstance(x, bool) and x >= 0


def check_part(key, part):
    """the shape of what the probe printed (it runs code of the tree under test: nothing it says is taken on trust)"""
    if not isinstance(part, dict):
        raise ValueError(f'probe result is {part!r}')
    if 'lost' in part:
        raise ValueError(str(part['lost']))
    want = dict(wrap=dict(short=is_nat, width=is_nat, initial_indent=str, subsequent_indent=str, suffix=str, sep=str,
                          drop_whitespace=bool, break_on_hyphens=bool, break_long_words=bool, expand_tabs=bool,
                          replace_whitespace=bool),
                fvar=dict(size=is_nat, prefix=str, sep=str), sfac=dict(prefix=str, sep=str))[key]
    for k, t in want.items():
        v = part.get(k)
        if not (t(v) if t is is_nat else isinstance(v, t)):
            raise ValueError(f'probe result {k} = {v!r}')
    return {k: part[k] for k in want}


LAST_KNOWN = dict(
    wrap=dict(short=0, width=0, initial_indent='', subsequent_indent='', suffix='', sep='', drop_whitespace=True,
              break_on_hyphens=True, break_long_words=True, expand_tabs=True, replace_whitespace=True),
    fvar=dict(size=0, prefix='', sep=''), sfac=dict(prefix='', sep=''))


def emit(out, w, fv, sf):
    b = lambda x: 'true' if x else 'false'
    text = extract.HEADER + f'''namespace Shelx.Extracted.Wrap

/-- misc.wrap_line: a line of at most this many characters is returned unchanged (does not reach the text wrapper) -/
def shortMax : Nat := {w['short']}
/-- options of the textwrap.TextWrapper at the time its `wrap` is called -/
def width : Nat := {w['width']}
def initialIndent : List Char := {lean_chars(w['initial_indent'])}
def indent : List Char := {lean_chars(w['subsequent_indent'])}
/-- the text between two pieces is suffix ++ sep: suffix = that text up to and including its last line break -/
def suffix : List Char := {lean_chars(w['suffix'])}
/-- … and sep = the rest of it (what a continuation line begins with) -/
def sep : List Char := {lean_chars(w['sep'])}
def dropWhitespace : Bool := {b(w['drop_whitespace'])}
def breakOnHyphens : Bool := {b(w['break_on_hyphens'])}
def breakLongWords : Bool := {b(w['break_long_words'])}

/-- str(Shelxfile.fvars) -/
def fvarChunk : Nat := {fv['size']}
def fvarPrefix : List Char := {lean_chars(fv['prefix'])}
def fvarSep : List Char := {lean_chars(fv['sep'])}

/-- repr(Shelxfile.sfac_table), plain elements -/
def sfacPrefix : List Char := {lean_chars(sf['prefix'])}
def sfacSep : List Char := {lean_chars(sf['sep'])}

end Shelx.Extracted.Wrap
'''
    extract.write_if_changed(out / 'Wrap.lean', text)


@extract.extractor
def tables_c06(repo, out):
    lost = []
    parts = {}
    try:
        probed = run_probe(repo)
    except (ValueError, OSError, subprocess.SubprocessError) as e:
        probed = {}
        lost.append(dict(props=['C06'], what=f'tables_c06: {e}'))
    for key in ('wrap', 'fvar', 'sfac'):
        try:
            if key not in probed:
                raise ValueError('no result from the probe')
            parts[key] = check_part(key, probed[key])
        except ValueError as e:
            if probed:
                lost.append(dict(props=['C06'], what=f'tables_c06/{key}: {e}'))
            parts[key] = LAST_KNOWN[key]
    emit(out, parts['wrap'], parts['fvar'], parts['sfac'])
    return lost


def _fallback(out):
    emit(out, LAST_KNOWN['wrap'], LAST_KNOWN['fvar'], LAST_KNOWN['sfac'])


tables_c06.props = ['C06']
tables_c06.fallback = _fallback

#!/venv/bin/python
"""
C14 — semantic reader of the thresholds of SDM.collect_needed_symmetry / SDM.packer (subprocess of tables_c14.py).

Nothing is read off the *text* of the source.  The package is imported from the tree under test and the two functions the
model mirrors are RUN (tracing translator, symtrace.py) on a two-atom structure in P-1 whose decisive numbers are symbolic:

    collect_needed_symmetry()  on ONE SDM item (atom1, atom2) whose `dist` is the symbol `dist`, whose atom1 carries a
                               molecule number that records what it is compared with (`mol`, still an int), and whose
                               inversion image lies at the distance D from atom2 (a `sqrt(...)` of the symbolic coordinate y2);
    packer()                   on the one operation `inversion + (1, 1, 1)`, so that the image of each atom lands at the
                               distance L from the other atom (every other distance in both probes is 4 A or more).

Every comparison the code performs on a symbolic number is recorded with both sides as expressions and brought to the normal
form `length REL k*dist + c` (or `mol REL c`) by exact linear arithmetic on the decimal text of the constants.  So
`(dk > 0.001) and (dddd >= dk)`, `0.001 < dk <= limit`, `if dk <= EPS or dk > reach: continue`, `not reach >= dk`, the test
moved into a helper / staticmethod / generator / module-level function, a module or class constant, a keyword default,
`2 / 10`, a constant defined by another, a dict / tuple / namedtuple lookup, `sum((dist, extra))` ... all leave the same
record: CPython evaluates the spelling, only the meaning is left.  These are the *candidate* thresholds.  What each of them
DOES is then established by running the real code once in every cell of the partition of the D (L, mol) axis that the
candidates induce — all recorded comparisons are constant inside a cell, so one run per cell is exhaustive — and again
until no run brings a new candidate.  The decision table must be

    collect, C...C:   none | one entry | none   eps    = the threshold at the lower change: pure constant, boundary on the `none` side
                                                window = the threshold at the upper change: `dist + c`, boundary on the `entry` side,
                                                         the same c at dist = 1.5 and dist = 1.1
    collect, H / D:   H...H, H...D, D...H, D...D are run as they are (dead today: equal atomic numbers are skipped first), then
                      H...H is presented with unequal `an` through a delegating proxy (the model's `an` and `isH` are independent
                      inputs, too):  none | one | none  -> hh = upper threshold, pure constant.  If no pair of hydrogens ever
                      reaches an H...H window, `hh` is null + a note (nothing to read, no input reaches it), not lost.
    collect, mol:     mol in -1, 1 .. 40, some far values and around every constant it was compared with (the values
                      calc_molindex() can assign):  none .. | one .. [| none ..]  -> molLow, molLimit (null: no upper change)
    packer:           0 | 2 images appended       dupLim = the threshold at the change, boundary on the `appended` side

Anything else (a further change, a change without a recorded threshold of these forms between the two runs, another
strictness than the model's `>` / `>=` / `<`, int()/round() of the explored number) is reported as lost together with the
table that was seen: the model could not follow it, and nothing is fitted.

Limits: the comparisons must be made on Python numbers that descend from the parsed coordinates / `sdm_item.dist` /
`atom.molindex` by `+ - * /`, `math.*`, `abs`, `round` (a detour through text or numpy makes them invisible: lost, since then no
threshold is recorded at the change); a membership test of `mol` in a hashed container is invisible beyond the sampled values.

Prints one JSON object {"consts": {...}, "lost": [...], "notes": [...]}.
usage: probe_c14.py --repo /repo
"""
import argparse
import contextlib
import io
import json
import sys
from fractions import Fraction
from pathlib import Path

HERE = Path(__file__).resolve().parent
sys.path.insert(0, str(HERE))

import symtrace as st  # noqa: E402

XMAX = 3.2          # explored range of the controlled distance (Angstrom); every other distance in the probes is >= 4
DISTS = (1.5, 1.1)  # the two values of `sdm_item.dist`


class Lost(Exception):
    pass


# ------------------------------------------------------------------------------------------------------------
# structured record of the branch events (symtrace keeps only their text)

REC = []            # (left node, op, right node, outcome) of every comparison on a symbolic number
OTHER = []          # (kind, node) of every int() / round() / bool() of a symbolic number


def _cmp(self, o, op, fn):
    if not st._num(o):
        return NotImplemented
    r = fn(float.__float__(self), float.__float__(o) if isinstance(o, st.Sym) else o)
    REC.append((self.node, op, st.lift(o), bool(r)))
    return r


def _int(self):
    OTHER.append(('int', self.node))
    return int(float.__float__(self))


def _bool(self):
    OTHER.append(('bool', self.node))
    return float.__float__(self) != 0


_round0 = st.Sym.__round__


def _round(self, n=None):
    if n is None:
        OTHER.append(('round', self.node))
    return _round0(self, n)


st.Sym._cmp = _cmp
st.Sym.__int__ = st.Sym.__trunc__ = _int
st.Sym.__bool__ = _bool
st.Sym.__round__ = _round


class SymInt(int):
    """a molecule number that is still an int (index, range(), hash, isinstance) but records what it is compared with"""
    node = st.mk('var', 'mol')

    def _c(self, o, op, fn):
        if not st._num(o):
            return NotImplemented
        r = fn(int(self), o)
        REC.append((self.node, op, self.node if isinstance(o, SymInt) else st.lift(o), bool(r)))
        return r

    def __lt__(self, o): return self._c(o, '<', lambda x, y: x < y)
    def __le__(self, o): return self._c(o, '<=', lambda x, y: x <= y)
    def __gt__(self, o): return self._c(o, '>', lambda x, y: x > y)
    def __ge__(self, o): return self._c(o, '>=', lambda x, y: x >= y)

    def __eq__(self, o):
        if isinstance(o, SymInt):
            return int(self) == int(o)
        return self._c(o, '==', lambda x, y: x == y)

    def __ne__(self, o):
        r = self.__eq__(o)
        return r if r is NotImplemented else not r

    def __hash__(self): return int.__hash__(self)

    def __bool__(self):
        OTHER.append(('bool', self.node))
        return int(self) != 0


# ------------------------------------------------------------------------------------------------------------
# exact linear normal form

def kind_of(atom):
    if atom[0] == 'var':
        return {'dist': 'dist', 'mol': 'mol'}.get(atom[1], 'coord')
    if atom[0] == 'call':
        if atom[1] in ('floor', 'ceil'):
            return 'cellshift'
        if atom[1] in ('sqrt', 'hypot', 'abs') or atom[1].startswith('round'):
            return 'length'
    return 'other'


def lin(n):
    """node -> ({atom: Fraction}, Fraction); non-linear sub-expressions are opaque atoms"""
    k = n[0]
    if k == 'int':
        return {}, Fraction(n[1])
    if k == 'dec':
        return {}, Fraction(n[1])
    if k in ('var', 'call'):
        return {n: Fraction(1)}, Fraction(0)
    if k == 'neg':
        a, c = lin(n[1])
        return {x: -v for x, v in a.items()}, -c
    a, ca = lin(n[1])
    b, cb = lin(n[2])
    if k in ('add', 'sub'):
        s = 1 if k == 'add' else -1
        out = dict(a)
        for x, v in b.items():
            out[x] = out.get(x, 0) + s * v
        return {x: v for x, v in out.items() if v != 0}, ca + s * cb
    if k == 'mul':
        if not a:
            return {x: v * ca for x, v in b.items() if v * ca != 0}, ca * cb
        if not b:
            return {x: v * cb for x, v in a.items() if v * cb != 0}, ca * cb
    if k == 'div' and not b and cb != 0:
        return {x: v / cb for x, v in a.items()}, ca / cb
    return {('opaque', n): Fraction(1)}, Fraction(0)


FLIP = {'<': '>', '<=': '>=', '>': '<', '>=': '<=', '==': '=='}


def constraint(a, op, b, subject):
    """`a op b` as (k, c, closed) meaning: the comparison splits the axis of the ONE atom of kind `subject` at
    k*dist + c; closed = 'low' if the boundary point belongs to the lower class (`<=` / `>`), 'up' for `<` / `>=`,
    'point' for `==`.  None: the comparison does not involve the subject; 'other': it does, in another form."""
    la, ca = lin(a)
    lb, cb = lin(b)
    co = dict(la)
    for x, v in lb.items():
        co[x] = co.get(x, 0) - v
    co = {x: v for x, v in co.items() if v != 0}
    c = ca - cb
    subj = [x for x in co if kind_of(x) == subject]
    if not subj:
        return None
    rest = [x for x in co if kind_of(x) != subject]
    if len(subj) != 1 or any(kind_of(x) != 'dist' for x in rest):
        return 'other'
    s = co[subj[0]]
    if s < 0:
        op = FLIP[op]
    k = sum((-co[x] / s for x in rest), Fraction(0))
    closed = {'<': 'up', '>=': 'up', '<=': 'low', '>': 'low', '==': 'point'}[op]
    return (k, -c / s, closed)


# ------------------------------------------------------------------------------------------------------------
# the probes

FILE = """TITL probe
CELL 0.71073 10 10 10 90 90 90
ZERR 1 0.001 0.001 0.001 0.01 0.01 0.01
LATT 1
SFAC C H D
UNIT 2 2 2
FVAR 1.0
{n1} {s1} 0.300000 0.500000 0.500000 11.0 0.02
{n2} {s2} 0.700000 {y2} 0.500000 11.0 0.02
HKLF 4
END
"""


class Proxy:
    """an atom with another atomic number: everything else is the real atom"""

    def __init__(self, atom, an):
        object.__setattr__(self, '_atom', atom)
        object.__setattr__(self, 'an', an)

    def __getattr__(self, name):
        return getattr(object.__getattribute__(self, '_atom'), name)

    def __setattr__(self, name, value):
        setattr(object.__getattribute__(self, '_atom'), name, value)


class World:
    def __init__(self, repo, placeholders):
        self.repo = repo
        self.placeholders = placeholders
        self.runs = 0
        self.cache = {}
        self.mol = 1           # a molecule number that is grown (set by the molindex probe)

    def read(self, x, els=('C', 'C')):
        """the two-atom structure with the controlled distance x -> SDM object, atoms (call inside Tracing)"""
        from shelxfile import Shelxfile
        from shelxfile.shelx.sdm import SDM
        sf = dict(C=1, H=2, D=3)
        y2 = f'{0.5 + x / 10:.12f}'
        self.placeholders.clear()
        self.placeholders[y2] = st.var('y2', float(y2))
        shx = Shelxfile()
        with contextlib.redirect_stdout(io.StringIO()):
            shx.read_string(FILE.format(n1=els[0] + '1', s1=sf[els[0]], n2=els[1] + '2', s2=sf[els[1]], y2=y2))
        atoms = list(shx.atoms.all_atoms)
        if [a.name for a in atoms] != [els[0] + '1', els[1] + '2']:
            raise Lost(f'probe structure parsed to the atoms {[a.name for a in atoms]}')
        if not isinstance(atoms[1].frac_coords[1], st.Sym):
            # the parser did not go through float(): hand the symbolic coordinate to the parsed atom
            atoms[1].y = self.placeholders[y2]
            if not isinstance(atoms[1].frac_coords[1], st.Sym) or abs(atoms[1].frac_coords[1] - float(y2)) > 1e-12:
                raise Lost('the y coordinate of the second probe atom can not be made symbolic')
        return SDM(shx), atoms

    def collect(self, x, dist, mol=None, els=('C', 'C'), proxy=False):
        """collect_needed_symmetry() on the one SDM item (atom1, atom2) -> (number of entries, comparisons, int()/bool() events)"""
        self.runs += 1
        key = (x, els)
        if key not in self.cache:
            sdm, (a1, a2) = self.read(x, els)
            with contextlib.redirect_stdout(io.StringIO()):
                sdm.calc_sdm()
            items = [it for it in sdm.sdm_list if it.atom1 is a1 and it.atom2 is a2]
            if len(items) != 1:
                raise Lost(f'calc_sdm() gave {len(items)} SDM items for the probe pair')
            self.cache = {key: (sdm, a1, a2, items[0])}
        sdm, a1, a2, it = self.cache[key]
        it.dist = st.var('dist', dist)
        it.covalent = True
        a1.molindex = self.mol if mol is None else SymInt(mol)
        a2.molindex = self.mol
        it.atom1, it.atom2 = (Proxy(a1, 1001), Proxy(a2, 1002)) if proxy else (a1, a2)
        sdm.sdm_list[:] = [it]
        del REC[:], OTHER[:]
        with contextlib.redirect_stdout(io.StringIO()):
            need = sdm.collect_needed_symmetry()
        return len(need), list(REC), list(OTHER)

    def pack(self, x):
        """packer() on the one operation `inversion + (1, 1, 1)` for molecule 1 -> (number of appended atoms, comparisons, ...)"""
        self.runs += 1
        sdm, atoms = self.read(x)
        for a in atoms:
            a.molindex = self.mol
        del REC[:], OTHER[:]
        with contextlib.redirect_stdout(io.StringIO()):
            packed = sdm.packer(sdm, [[2, 6, 6, 6, self.mol]], with_qpeaks=False)
        return len(packed) - len(atoms), list(REC), list(OTHER)


def depends(node, subject):
    seen = set()

    def go(n):
        if id(n) in seen or not isinstance(n, tuple):
            return False
        seen.add(id(n))
        if n[0] in ('var', 'call') and kind_of(n) == subject:
            return True
        return any(go(c) for c in n[1:] if isinstance(c, tuple))
    return go(node)


def explore(run, subject, dist, lo, hi, start, integer=False, domain=lambda v: True):
    """run(x) -> (outcome, comparisons, int/bool events).  One run in every cell of the partition of the axis by the
    boundaries of all comparisons on `subject` met in any run (repeated until no run brings a new boundary).
    -> cells = sorted [(x, outcome)], shapes = {boundary: {(k, c, closed)}}, others = comparisons of another form"""
    samples, shapes, others = {}, {}, set()
    todo = list(start)
    while todo:
        x = todo.pop()
        if x in samples:
            continue
        if len(samples) > 400:
            raise Lost(f'{subject}: exploration does not terminate')
        out, rec, other = run(x)
        samples[x] = out
        for knd, node in other:
            if not depends(node, subject):
                continue
            if knd == 'bool' and kind_of(node) == subject:
                shapes.setdefault(0.0, set()).add((Fraction(0), Fraction(0), 'point'))      # truth value: `x == 0`
            elif not (integer and kind_of(node) == subject):
                # int(), round() or truth value of something computed from the explored number: a branch nobody recorded
                raise Lost(f'{knd}({st.show(node, 3)}) is taken of a number that depends on the explored {subject}')
        for a, op, b, r in rec:
            c = constraint(a, op, b, subject)
            if c is None:
                continue
            if c == 'other':
                others.add(f'{st.show(a, 3)} {op} {st.show(b, 3)}')
                continue
            shapes.setdefault(round(float(c[0]) * dist + float(c[1]), 9), set()).add(c)
        if integer:
            for b in shapes:
                f = int(b // 1)
                todo.extend(v for v in (f - 1, f, f + 1, f + 2) if v not in samples and domain(v))
        else:
            edges = [lo] + sorted(b for b in shapes if lo < b < hi) + [hi]
            for p, q in zip(edges, edges[1:]):
                if q - p > 1e-7 and not any(p < s < q for s in samples):
                    todo.append((p + q) / 2)
    return sorted(samples.items()), shapes, sorted(others)


def flips(cells):
    return [(p, q, a, b) for (p, a), (q, b) in zip(cells, cells[1:]) if a != b]


def between(shapes, p, q):
    return sorted((b, s) for b, ss in shapes.items() if p < b < q for s in ss)


def table(cells):
    out = []
    for x, o in cells:          # runs of equal outcome
        if out and out[-1][2] == o:
            out[-1][1] = x
        else:
            out.append([x, x, o])
    return ' | '.join((f'{a:.6g}' if a == b else f'{a:.6g}..{b:.6g}') + f' -> {o}' for a, b, o in out)


def fr(x):
    return f'{x.numerator}/{x.denominator}'


def show_shape(s):
    k, c, cl = s
    rhs = (f'{k}*dist + ' if k else '') + str(float(c))
    return f'x {"<=" if cl == "low" else "<" if cl == "up" else "=="} {rhs}'


def read_window(w, els, proxy, what):
    """decision table of collect_needed_symmetry over the image distance for one pair of elements
    -> {dist: (lower shape, upper shape) | None (never an entry)}"""
    res = {}
    for dist in DISTS:
        cells, shapes, others = explore(lambda x: w.collect(x, dist, els=els, proxy=proxy), 'length', dist, 0.0, XMAX, [0.7])
        fl = flips(cells)
        if all(o == 0 for _, o in cells):
            res[dist] = None
            continue
        lo_s = up_s = ()
        ok = len(fl) == 2 and fl[0][2:] == (0, 1) and fl[1][2:] == (1, 0)
        if ok:
            lo_s = between(shapes, fl[0][0], fl[0][1])
            up_s = between(shapes, fl[1][0], fl[1][1])
        if not (len(lo_s) == 1 and len(up_s) == 1):
            raise Lost(f'{what}: entries as a function of the image distance (dist = {dist}) are not `none | one | none` with one '
                       f'recorded threshold at each change: {table(cells)}; thresholds met: '
                       f'{[show_shape(s) for ss in shapes.values() for s in ss]}; comparisons of another form: {others}')
        res[dist] = (lo_s[0][1], up_s[0][1])
    return res


def one(shapes, what):
    if len(shapes) != 1:
        raise Lost(f'{what} differs between dist = {DISTS}: {[show_shape(s) for s in shapes]}')
    return next(iter(shapes))


def main(repo):
    lost, notes, consts = [], [], {}
    st.import_repo(repo)
    placeholders = {}
    w = World(repo, placeholders)

    def section(name, fn):
        try:
            fn()
        except Lost as e:
            lost.append(f'{name}: {e}')
        except Exception as e:
            import traceback
            traceback.print_exc(file=sys.stderr)
            lost.append(f'{name}: the probe raised {type(e).__name__}: {e}')

    def eps_window():
        r = read_window(w, ('C', 'C'), False, 'C...C pair')
        if any(v is None for v in r.values()):
            raise Lost('no entry for a covalent C...C pair across an inversion centre, at any distance')
        k, c, cl = one({v[0] for v in r.values()}, 'lower threshold')
        if k != 0 or cl != 'low':
            raise Lost(f'lower threshold of the image distance is `{show_shape((k, c, cl))}`, the model has `dk > const`')
        consts['eps'] = fr(c)
        k, c, cl = one({v[1] for v in r.values()}, 'upper threshold')
        if k != 1 or cl != 'low':
            raise Lost(f'upper threshold of the image distance is `{show_shape((k, c, cl))}`, the model has `dist + const >= dk`')
        consts['window'] = fr(c)

    def hh():
        consts['hh'] = None
        src, who = None, None
        for els in (('H', 'H'), ('H', 'D'), ('D', 'H'), ('D', 'D')):
            r = read_window(w, els, False, f'{els[0]}...{els[1]} pair')
            if src is None and all(v is not None for v in r.values()):
                src, who = r, f'{els[0]}...{els[1]}'
            elif any(v is not None for v in r.values()) and src is None:
                raise Lost(f'{els[0]}...{els[1]}: entries for one value of dist only')
        if src is None:
            src, who = read_window(w, ('H', 'H'), True, 'H...H pair presented with unequal atomic numbers'), 'H...H (unequal an)'
        else:
            notes.append(f'hh: a real {who} pair gives entries (the model skips pairs of hydrogens of equal atomic number)')
        if any(v is None for v in src.values()):
            if not all(v is None for v in src.values()):
                raise Lost(f'{who}: entries for one value of dist only')
            notes.append('hh: two hydrogen atoms never give an entry, whatever their atomic numbers: no H...H window in the '
                         'working tree, the last known value is written (no input reaches it)')
            return
        up = one({v[1] for v in src.values()}, f'{who}: upper threshold')
        low = one({v[0] for v in src.values()}, f'{who}: lower threshold')
        if 'eps' in consts and (low[0] != 0 or low[2] != 'low' or fr(low[1]) != consts['eps']):
            raise Lost(f'{who}: lower threshold `{show_shape(low)}` is not the one of other pairs')
        k, c, cl = up
        if k == 1 and cl == 'low' and fr(c) == consts.get('window'):
            notes.append(f'hh: {who} gets the window of every other pair: no separate H...H window in the working tree, '
                         'the last known value is written' + ('' if who.startswith('H...H (') else ' (REACHABLE)'))
            return
        if k != 0 or cl != 'low':
            raise Lost(f'{who}: upper threshold is `{show_shape(up)}`, the model has `const >= dk`')
        consts['hh'] = fr(c)

    def mol():
        # calc_molindex() gives -1 (no molecule) or 1, 2, 3 ...: that is the domain of the table
        HI = 40
        dom = lambda v: v == -1 or v >= 1
        cells, shapes, others = explore(lambda m: w.collect(0.7, 1.5, mol=m), 'mol', 0.0, -1, HI, [-1] + list(range(1, HI + 1)) + [50, 64, 100, 128, 1000, 10 ** 6],
                                        integer=True, domain=dom)
        if others:
            raise Lost(f'atom1.molindex is used in a form the model does not have: {others}')
        fl = flips(cells)
        ok = len(fl) in (1, 2) and fl[0][2:] == (0, 1) and (len(fl) == 1 or fl[1][2:] == (1, 0)) and \
            all(q == p + 1 or (p, q) == (-1, 1) for p, q, _, _ in fl)
        if not ok:
            raise Lost(f'entries as a function of atom1.molindex (-1, 1, 2, ...) are not `none .. | one .. [| none ..]`: {table(cells)}')
        consts['molLow'] = fl[0][1]
        consts['molLimit'] = fl[1][0] if len(fl) == 2 else None
        w.mol = fl[0][1]

    def dup():
        cells, shapes, others = explore(lambda x: w.pack(x), 'length', 0.0, 0.0, XMAX, [0.7])
        fl = flips(cells)
        ss = between(shapes, fl[0][0], fl[0][1]) if len(fl) == 1 and fl[0][2:] == (0, 2) else ()
        if len(ss) != 1:
            raise Lost(f'appended images (of 2) as a function of their distance to an atom of the same PART are not `0 | 2` with '
                       f'one recorded threshold at the change: {table(cells)}; thresholds met: '
                       f'{[show_shape(s) for x in shapes.values() for s in x]}; comparisons of another form: {others}')
        k, c, cl = ss[0][1]
        if k != 0 or cl != 'up':
            raise Lost(f'duplicate test is `{show_shape((k, c, cl))}`, the model has `length < const`')
        consts['dupLim'] = fr(c)

    with st.Tracing(repo, placeholders):
        section('collect_needed_symmetry', mol)
        section('collect_needed_symmetry', eps_window)
        section('collect_needed_symmetry', hh)
        section('packer', dup)
    notes.append(f'{w.runs} runs of the real code')
    return dict(consts=consts, lost=lost, notes=notes)


if __name__ == '__main__':
    ap = argparse.ArgumentParser()
    ap.add_argument('--repo', default='/repo')
    a = ap.parse_args()
    try:
        r = main(Path(a.repo).resolve())
    except Exception as e:    # the package does not import, ...
        r = dict(consts={}, lost=[f'probe_c14: {type(e).__name__}: {e}'], notes=[])
    print(json.dumps(r, indent=1))

"""
C13 — tracing target: the metric length of a fractional vector as `SDM` computes it (`SDM.__init__` + `SDM.vector_length`),
from the cell lengths and the cosines of the cell angles. The real code runs on symbolic numbers (symtrace.py); the
`src_vectorLength` theorem in lean/ShelxProps/C13.lean ties the emitted definition to the model (`vectorLength` on
`Cell.ofLengths`) for all inputs, whatever way the code spells or pre-computes the quadratic form.
"""
from trace_run import target

FILE = """TITL traced C13
CELL 0.71073 10.5101 11.5202 12.5303 81.04 82.05 83.06
ZERR 4 0.001 0.001 0.001 0.01 0.01 0.01
LATT -1
SFAC C H O
UNIT 4 4 4
FVAR 1.0
C1    1    0.123411    0.234522    0.345633    11.00000    0.03
HKLF 4
END
"""
CELL_LIT = dict(a='10.5101', b='11.5202', c='12.5303', alpha='81.04', beta='82.05', gamma='83.06')
COS = dict(alpha=('ca', 'sa'), beta=('cb', 'sb'), gamma=('cg', 'sg'))
# the parser looks at the magnitude of numbers to tell free-variable codes from plain values
PARSE_EVENTS = ('> 4', '>= 4', '< 4', '> 15', '> -', '< -', 'abs(', '> 1e-06', '> 1e-05', '> 0', '< 0', '== 0', 'bool(',
                '> 5', '< 5', '> 10', '< 10', '>= 5', '>= 10', '>= 15', '== 10', '== 11', '> 0.5', '< 0.5')


@target('C13', 'vectorLength', ['a', 'b', 'c', 'ca', 'cb', 'cg', 'x', 'y', 'z'],
        doc='SDM(shx).vector_length(x, y, z) for a file with the cell a b c alpha beta gamma; ca cb cg are the cosines',
        calls=['sqrt'], expect=PARSE_EVENTS)
def vector_length(t):
    import symtrace as st
    from shelxfile import Shelxfile
    from shelxfile.shelx.sdm import SDM
    for n, lit in CELL_LIT.items():
        v = t.literal(lit, n)
        if n in COS:
            rad = st.mk('call', 'radians', v.node)
            t.table[st.mk('call', 'cos', rad)] = st.mk('var', COS[n][0])
            t.table[st.mk('call', 'sin', rad)] = st.mk('var', COS[n][1])
    shx = Shelxfile()
    shx.read_string(FILE)
    sdm = SDM(shx)
    return sdm.vector_length(t.var('x', 0.1234), t.var('y', -0.2345), t.var('z', 0.3456))

#!/venv/bin/python
"""
Subprocess entry of the C18 translator (extract/tables_c18.py): the package of the tree under test is IMPORTED and
its public API is run on a handful of small structures, with two library seams instrumented:

  * `string.Template.__init__` / `.substitute` / `.safe_substitute`: which template text `Shelxfile.to_cif()` fills and
    with which keys — whatever methods, helper functions, loops over tables, dict literals, `dict(...)`, `**` merges or
    comprehensions build the dictionary, and wherever the template text comes from;
  * `fractions.Fraction.limit_denominator`: with which bound the operator printer calls it (a literal, a named
    constant, a default argument, a constant computed from other constants …), together with the operator string
    written for every operator of the probes and the operator's matrix/translations, so that the parent can check
    that "translation printed as str(Fraction(t).limit_denominator(N))" describes EVERY string observed.

Nothing is decided here: the observations are printed as one JSON object and tables_c18.py turns them into tables
or into lost-messages.

usage: probe_c18.py --repo /repo
"""
import argparse
import json
import os
import sys
import tempfile
import traceback

# ------------------------------------------------------------------------------------------------------------
# probe structures: valid .res texts, varied in what is optional for the CIF (ZERR, TEMP, SIZE, residual REMs, title,
# Q-peaks, anisotropic atoms, PART/RESI) and in the translations of the operators (the twelfths, their sums with the
# R/I/F centrings, and decimals that are no simple fraction, on which the result of limit_denominator depends on N)

ATOMS_FULL = """\
FVAR 0.31 0.6
RESI 2 ABC
PART 1 21
C1    1    0.123400    0.234500    0.345600    21.00000    0.02110    0.03120 =
         0.04130   -0.00140    0.00150   -0.00160
PART 2 -21
C1A   1    0.133400    0.244500    0.355600   -21.00000    0.05000
PART 0
RESI 0
O1    3    0.500000    0.250000    0.750000    10.50000    0.03100
AFIX 43
H1    2    0.510000    0.260000    0.760000    11.00000   -1.20000
AFIX 0
"""

RES = {
    'full': """\
TITL Probe one in P2(1)/c
CELL 0.71073 10.5101 11.5202 12.5303 90 95.05 90
ZERR 4 0.001 0.002 0.003 0 0.02 0
LATT 1
SYMM -X, 0.5+Y, 0.5-Z
SFAC C H O
UNIT 8 4 4
L.S. 10
TEMP -173.15
ACTA
SIZE 0.31 0.12 0.22
BOND $H
FMAP 2
PLAN 20
WGHT 0.0491 0.1234
""" + ATOMS_FULL + """\
HKLF 4

REM probe in P2(1)/c
REM wR2 = 0.1234, GooF = S = 1.056, Restrained GooF = 1.056 for all data
REM R1 = 0.0456 for 7085 Fo > 4sig(Fo) and 0.0794 for all 10786 data
REM 945 parameters refined using 1842 restraints

END

WGHT      0.0491      0.0000

REM Highest difference peak  0.407,  deepest hole -0.691,  1-sigma level  0.073
Q1    1    0.1000    0.2000    0.3000   11.00000  0.05      0.41
Q2    1    0.4000    0.5000    0.6000   11.00000  0.05      0.31
""",
    'bare': """\
TITL
CELL 1.54178 8.1 9.2 10.3 81 82 83
LATT -1
SFAC C O
UNIT 2 1
L.S. 4
FVAR 0.5
C1    1    0.100000    0.200000    0.300000    11.00000    0.05000
O1    2    0.400000    0.500000    0.600000    11.00000    0.04000
HKLF 4
END
""",
    'rhombo': """\
TITL r3c
CELL 0.71073 10.1 10.1 30.3 90 90 120
ZERR 6 0.001 0.001 0.003 0 0 0
LATT 3
SYMM -Y, X-Y, Z
SYMM -X+Y, -X, Z
SYMM -Y, -X, 0.5+Z
SYMM -X+Y, Y, 0.5+Z
SYMM X, X-Y, 0.5+Z
SFAC C
UNIT 36
L.S. 4
TEMP 20
FVAR 0.5
C1    1    0.100000    0.200000    0.300000    11.00000    0.05000
HKLF 4
END
""",
    'screw': """\
TITL p61 with I and F style translations
CELL 0.71073 10.1 10.1 30.3 90 90 120
ZERR 6 0.001 0.001 0.003 0 0 0
LATT -2
SYMM -Y, X-Y, 1/3+Z
SYMM -X+Y, -X, 2/3+Z
SYMM -X, -Y, 0.5+Z
SYMM Y, -X+Y, 5/6+Z
SYMM X-Y, X, 1/6+Z
SYMM 0.25-X, 0.75+Y, -0.25+Z
SYMM 0.3333+X, 0.6667-Y, 0.1667+Z
SFAC C
UNIT 36
L.S. 4
SIZE 0.2 0.2 0
FVAR 0.5
C1    1    0.100000    0.200000    0.300000    11.00000    0.05000
HKLF 4
END
""",
    'odd': """\
TITL decimals that are no simple fraction
CELL 0.71073 10.1 11.1 12.1 90 90 90
LATT -4
SYMM 0.1234567+X, 0.7071067811865476-Y, -0.318309886+Z
SYMM 0.0123+X, 1.4142135-Y, 0.9999+Z
SYMM 0.001+Y, 0.0009-X, 0.5005+Z
SYMM 0.0833333333+X, -0.9166666667+Y, 0.4166666667-Z
SFAC C
UNIT 36
L.S. 4
FVAR 0.5
C1    1    0.100000    0.200000    0.300000    11.00000    0.05000
HKLF 4
END
""",
}


def install_seams(log):
    import fractions
    import string

    orig_ld = fractions.Fraction.limit_denominator

    def limit_denominator(self, max_denominator=1000000):
        log['ld'].append(dict(arg=[self.numerator, self.denominator], N=max_denominator if isinstance(max_denominator, int)
                              and not isinstance(max_denominator, bool) else repr(max_denominator)))
        return orig_ld(self, max_denominator)
    fractions.Fraction.limit_denominator = limit_denominator

    T = string.Template
    orig_init, orig_sub, orig_safe = T.__init__, T.substitute, T.safe_substitute

    def __init__(self, template, *a, **k):
        orig_init(self, template, *a, **k)
        log['templates'].append(self)

    def _keys(mapping, kws):
        keys = []
        for src in ([] if mapping is None else [mapping]) + [kws]:
            for key in src:
                if key not in keys:
                    keys.append(key)
        return keys

    def substitute(self, mapping=None, /, **kws):
        log['subs'].append(dict(method='substitute', template=self, keys=_keys(mapping, kws)))
        return orig_sub(self, *([] if mapping is None else [mapping]), **kws)

    def safe_substitute(self, mapping=None, /, **kws):
        log['subs'].append(dict(method='safe_substitute', template=self, keys=_keys(mapping, kws)))
        return orig_safe(self, *([] if mapping is None else [mapping]), **kws)
    T.__init__, T.substitute, T.safe_substitute = __init__, substitute, safe_substitute
    return orig_safe


def template_facts(tmpl, orig_safe):
    """placeholders of one string.Template instance, with the class's own pattern (the one substitute uses), and the
    `_data_name  <placeholder>` lines, found by filling every placeholder with a marker and reading the filled text"""
    tags, invalid = [], 0
    for m in tmpl.pattern.finditer(tmpl.template):
        name = m.group('named') or m.group('braced')
        if name is not None:
            tags.append(name)
        elif m.group('invalid') is not None:
            invalid += 1
    filled = orig_safe(tmpl, {t: f'\x00{t}\x00' for t in tags})
    return dict(text=tmpl.template, tags=tags, invalid=invalid, filled=filled)


def op_facts(el):
    rows = [[el.matrix[i, j] for j in range(3)] for i in range(3)]
    trans = [el.trans[i] for i in range(3)]
    ok = all(isinstance(v, (int, float)) and not isinstance(v, bool) and v == int(v) for r in rows for v in r) and \
        all(isinstance(t, (int, float)) and not isinstance(t, bool) for t in trans)
    if not ok:
        return dict(error=f'matrix/translation of the operator are no plain numbers: {rows!r} {trans!r}')
    return dict(rows=[[int(v) for v in r] for r in rows], trans=[repr(t) for t in trans], tstr=[str(t) for t in trans])


def main(repo):
    sys.path.insert(0, repo)
    sys.dont_write_bytecode = True
    out = dict(structures={}, ops=[], error=None)
    log = dict(ld=[], templates=[], subs=[])
    # before the package is imported: a module that binds `Fraction.limit_denominator` or `Template.substitute` to a
    # name of its own at import time then binds the instrumented function
    orig_safe = install_seams(log)
    try:
        import shelxfile
        root = os.path.realpath(str(getattr(shelxfile, '__file__', '')))
        if not root.startswith(os.path.realpath(repo)):
            raise ImportError(f'shelxfile was imported from {root}, not from {repo}')
        from shelxfile import Shelxfile
    except Exception as e:
        out['error'] = f'the package does not import: {e!r}'
        return out
    tmp = tempfile.mkdtemp(prefix='probe_c18_')
    seen_ops = set()
    for name, text in RES.items():
        rec = dict()
        out['structures'][name] = rec
        try:
            shx = Shelxfile()
            shx.read_string(text)
            elements = list(shx.symmcards)
            rec['n_ops'] = len(elements)
        except Exception as e:
            rec['error'] = f'read_string/symmcards: {type(e).__name__}: {e}'
            continue
        # -- operators, one by one
        for el in elements:
            try:
                f = op_facts(el)
                if 'error' not in f:
                    key = (json.dumps(f['rows']), tuple(f['trans']))
                    if key in seen_ops:
                        continue
                    seen_ops.add(key)
                    del log['ld'][:]
                    f['text'] = el.to_cif()
                    f['ld'] = list(log['ld'])
                    if not isinstance(f['text'], str):
                        f = dict(error=f'to_cif() returned {type(f["text"]).__name__}')
            except Exception as e:
                f = dict(error=f'to_cif(): {type(e).__name__}: {e}')
            f['structure'] = name
            out['ops'].append(f)
        # -- the export
        del log['templates'][:], log['subs'][:]
        path = os.path.join(tmp, name + '.cif')
        try:
            shx.to_cif(path)
            rec['written'] = os.path.exists(path)
        except Exception as e:
            rec['raise'] = f'{type(e).__name__}: {e}'
        try:
            rec['n_templates'] = len(log['templates'])
            rec['subs'] = [dict(method=s['method'], keys=[k if isinstance(k, str) else repr(k) for k in s['keys']],
                                str_keys=all(isinstance(k, str) for k in s['keys']),
                                **template_facts(s['template'], orig_safe)) for s in log['subs']]
        except Exception as e:
            rec['error'] = f'template: {type(e).__name__}: {e}'
    try:
        import shutil
        shutil.rmtree(tmp, ignore_errors=True)
    except Exception:
        pass
    return out


if __name__ == '__main__':
    ap = argparse.ArgumentParser()
    ap.add_argument('--repo', default='/repo')
    a = ap.parse_args()
    real_stdout = sys.stdout
    sys.stdout = sys.stderr            # whatever the package prints must not end up in the JSON
    try:
        res = main(os.path.realpath(a.repo))
    except Exception:
        res = dict(structures={}, ops=[], error='probe failed: ' + traceback.format_exc()[-600:])
    real_stdout.write(json.dumps(res))
    real_stdout.write('\n')

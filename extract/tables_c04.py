"""
C04 — what the parser does with the list entry of a line whose content went into an earlier object
(second and later SFAC / FVAR / SYMM-duplicate lines), read off `Shelxfile._parse_cards`, plus every place
of the package that adds to `delete_on_write`, plus the two skip rules of `write_shelx_file`.

Generated: lean/ShelxModel/Extracted/C04Scheme.lean
  absorb : List (String × Bool × Bool)   keyword, entry blanked to '' in place, index put into delete_on_write
  dowWriters : List String               functions that add to delete_on_write
  writerSkipsEmpty, writerSkipsDow : Bool
`ShelxProps/C04.lean` proves (`decide`) that this is the scheme the model's `load` implements.
"""
import ast

import extract

REL = 'shelxfile/shelx/shelx.py'
KEYWORDS = ['SYMM', 'SFAC', 'FVAR']


def _is_self_attr(n, name):
    return isinstance(n, ast.Attribute) and n.attr == name and isinstance(n.value, ast.Name) and n.value.id == 'self'


def _kw_of_test(test):
    """`word == 'SFAC'` / `'SFAC' == word` -> 'SFAC'"""
    if isinstance(test, ast.Compare) and len(test.ops) == 1 and isinstance(test.ops[0], ast.Eq):
        for a in (test.left, test.comparators[0]):
            if isinstance(a, ast.Constant) and isinstance(a.value, str):
                return a.value.upper()
    return None


def _absorb_branch(stmts):
    """find `if X not in self._reslist: ... else: ABSORB` (or the inverted spelling) -> ABSORB statements"""
    for node in stmts:
        for n in ast.walk(node):
            if isinstance(n, ast.If) and isinstance(n.test, ast.Compare) and len(n.test.ops) == 1 \
                    and _is_self_attr(n.test.comparators[0], '_reslist'):
                if isinstance(n.test.ops[0], ast.NotIn):
                    return n.orelse
                if isinstance(n.test.ops[0], ast.In):
                    return n.body
    return None


def _classify(stmts):
    blank = by_index = False
    other = []
    for st in stmts:
        if isinstance(st, ast.Expr) and isinstance(st.value, ast.Constant):
            continue                                     # docstring / stray constant
        if isinstance(st, ast.Pass):
            continue
        if isinstance(st, ast.Assign) and len(st.targets) == 1 and isinstance(st.targets[0], ast.Subscript) \
                and _is_self_attr(st.targets[0].value, '_reslist') and isinstance(st.value, ast.Constant) and isinstance(st.value.value, str):
            if st.value.value == '':
                blank = True
            elif st.value.value.strip() == '':
                pass                                     # ' ': written as an empty line unless skipped by index
            else:
                other.append(ast.unparse(st))
            continue
        if _mutates_dow(st):
            by_index = True
            continue
        other.append(ast.unparse(st))
    return blank, by_index, other


def _mutates_dow(st):
    for n in ast.walk(st):
        if isinstance(n, ast.Call) and isinstance(n.func, ast.Attribute) and n.func.attr in ('update', 'add', 'append', 'extend') \
                and _is_self_or_shx_dow(n.func.value):
            return True
        if isinstance(n, ast.AugAssign) and _is_self_or_shx_dow(n.target):
            return True
    return False


def _is_self_or_shx_dow(n):
    return isinstance(n, ast.Attribute) and n.attr == 'delete_on_write'


def _write(out, absorb, writers, skips_empty, skips_dow):
    rows = ', '.join(f'({extract.lean_str(k)}, {str(b).lower()}, {str(i).lower()})' for k, b, i in absorb)
    text = extract.HEADER + f'''namespace Shelx.Extracted.C04

/-- per keyword whose later lines are absorbed into the first line's object:
    (keyword, the entry is blanked to '' in place, its index is put into delete_on_write) -/
def absorb : List (String × Bool × Bool) := [{rows}]

/-- functions of the package that add to `delete_on_write` -/
def dowWriters : List String := {extract.lean_list([extract.lean_str(w) for w in writers])}

/-- `write_shelx_file` skips entries equal to '' / entries whose index is in `delete_on_write` -/
def writerSkipsEmpty : Bool := {str(skips_empty).lower()}
def writerSkipsDow : Bool := {str(skips_dow).lower()}

end Shelx.Extracted.C04
'''
    extract.write_if_changed(out / 'C04Scheme.lean', text)


def fallback(out):
    _write(out, [], [], False, False)


@extract.extractor
def c04_scheme(repo, out):
    lost = []
    tree = extract.parse(repo, REL)
    fn = extract.find(tree, 'Shelxfile._parse_cards')
    if fn is None:
        raise ValueError('Shelxfile._parse_cards not found')
    absorb = []
    seen = {}
    for n in ast.walk(fn):
        if isinstance(n, ast.If):
            k = _kw_of_test(n.test)
            if k in KEYWORDS and k not in seen:
                seen[k] = n
    for k in KEYWORDS:
        if k not in seen:
            lost.append(dict(props=['C04'], what=f'_parse_cards has no branch for {k} any more'))
            continue
        br = _absorb_branch(seen[k].body)
        if br is None:
            lost.append(dict(props=['C04'], what=f'the {k} branch of _parse_cards no longer tests `... in self._reslist`'))
            continue
        blank, by_index, other = _classify(br)
        if other:
            lost.append(dict(props=['C04'], what=f'{k}: unrecognised statement where an absorbed line is handled: {other[0]}'))
        absorb.append((k, blank, by_index))
    # who else adds to delete_on_write?
    writers = []
    for path in sorted((repo / 'shelxfile').rglob('*.py')):
        rel = str(path.relative_to(repo))
        try:
            t = ast.parse(path.read_text())
        except SyntaxError:
            continue
        for node in ast.walk(t):
            if isinstance(node, (ast.FunctionDef, ast.AsyncFunctionDef)):
                own = [s for s in node.body]
                if any(_mutates_dow(s) for s in own):
                    writers.append(f'{rel}::{node.name}')
    # the writer's skip rules
    skips_empty = skips_dow = False
    w = extract.find(tree, 'Shelxfile.write_shelx_file')
    if w is None:
        lost.append(dict(props=['C04'], what='Shelxfile.write_shelx_file not found'))
    else:
        for n in ast.walk(w):
            if isinstance(n, ast.If) and any(isinstance(s, ast.Continue) for s in n.body) and isinstance(n.test, ast.Compare) and len(n.test.ops) == 1:
                c = n.test
                sides = [c.left, c.comparators[0]]
                if isinstance(c.ops[0], ast.Eq) and any(isinstance(s, ast.Constant) and s.value == '' for s in sides):
                    skips_empty = True
                if isinstance(c.ops[0], ast.In) and _is_self_or_shx_dow(c.comparators[0]):
                    skips_dow = True
                if isinstance(c.ops[0], ast.Eq) and isinstance(c.left, ast.Call) and ast.unparse(c.left).startswith('len(') \
                        and isinstance(c.comparators[0], ast.Constant) and c.comparators[0].value == 0:
                    skips_empty = True
            if isinstance(n, ast.If) and any(isinstance(s, ast.Continue) for s in n.body) and isinstance(n.test, ast.UnaryOp) \
                    and isinstance(n.test.op, ast.Not) and isinstance(n.test.operand, ast.Name):
                skips_empty = True                       # `if not line: continue`
    _write(out, absorb, sorted(set(writers)), skips_empty, skips_dow)
    return lost


c04_scheme.props = ['C04']
c04_scheme.fallback = fallback

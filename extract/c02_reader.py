"""
C02 translator, part 4: the reader — an abstract interpreter for the handlers of `Shelxfile._parse_cards`, the card
constructors of `cards.py` and `Atom.parse_line`.

It walks the syntax tree of a function with *abstract values* (c02_values.py) instead of names: the token list of the
line and its slices, the number / word lists the two `_parse_line` primitives return, single tokens, loop variables
over tokens, lengths, constants (evaluated by c02_consts.py), the parser object, its flags, its diagnostic mode.  Calls of
functions, methods, static methods and properties of the package are followed (inlined) with the arguments bound, so
a piece of code may live in the constructor, in a helper, or in a module-level function; loops over constant tables
are unrolled; guards are normalised to boolean formulas over the atoms the Lean model evaluates (`len(p) > 0`, `p`,
`0 < len(p)`, `not len(p) == 0`, `n = len(p) … n >= 1` are the same atom), early `return`s become guards of what follows.

What comes out is the flat list of guarded *requirement steps* of ShelxModel/C02.lean (`needS i`, `toFloat i`,
`parseCmd`, `card C`, `raise E`, …).  A use of a tracked value that the reader does not understand becomes an
`unknown` step (which the model treats as raising) and a lost-message: scope never shrinks silently.
"""
from __future__ import annotations

import ast
import builtins
import copy
import re

from c02_consts import CEval, ClassRef, FuncRef, ModRef, NotConst, decorators, local_names
from c02_values import *       # noqa: F401,F403
from c02_values import T, F
import c02_assume as assume
from extract import lean_str

FLAGS = {'frag': 'frag', 'cell': 'cell', 'sfac_table': 'sfac', 'end': 'end', 'latt': 'latt'}
MODES = {'debug': '.debug', 'verbose': '.verbose'}
PLAIN_ERRS = {'IndexError', 'ValueError', 'NameError', 'AttributeError', 'KeyError'}
ERR_GROUPS = {'LookupError': ['IndexError', 'KeyError'], 'Exception': None, 'BaseException': None}
FLOAT_OK = {'int', 'num', 'big', 'dnum', 'enum'}
INT_OK = {'int'}
REPS = dict(int=['3', '-2', '+4', '0', '17'], num=['0.25', '-1.2', '2.0'], big=['10.25', '21.0'], dnum=['.5', '.25'],
            enum=['5E-1', '1e3'], word=['C1', '$H', 'NOHKL', 'TOL', 'x'], sym=['-x,', '1/2+y,', '1PE', '2(1)/c'])
CMP = {ast.Eq: 'Eq', ast.NotEq: 'Ne', ast.Gt: 'Gt', ast.Lt: 'Lt', ast.GtE: 'Ge', ast.LtE: 'Le'}
FLIP = {'Eq': 'Eq', 'Ne': 'Ne', 'Gt': 'Lt', 'Lt': 'Gt', 'Ge': 'Le', 'Le': 'Ge'}
MAX_DEPTH = 5
MAX_UNROLL = 64


def err_of(name):
    if name in PLAIN_ERRS:
        return '.' + name
    if name.startswith('Parse'):       # (the harness files every Parse* class under ParseError)
        return '.ParseError'
    return '.Other'


def len_formula(k, lo, hi, add, op, n):
    """formula for `len(k[lo:hi]) + add  OP  n` in terms of the length L of k itself"""
    m = n - add                       # compare v = clamp(min(L, hi) - lo, 0) with m
    w = None if hi is None else max(hi - lo, 0)

    def c(o, x):
        if x < 0:
            return {'Gt': T, 'Ge': T, 'Ne': T, 'Lt': F, 'Le': F, 'Eq': F}[o]
        if o == 'Ge':                   # one spelling per set of lengths: >= n is > n-1, < n is <= n-1
            return T if x == 0 else f_atom(Cond(k, 'Gt', x - 1))
        if o == 'Lt':
            return F if x == 0 else f_atom(Cond(k, 'Le', x - 1))
        if x == 0 and o in ('Eq', 'Ne'):
            o = 'Le' if o == 'Eq' else 'Gt'
        return f_atom(Cond(k, o, x))
    if op == 'Ne':
        return f_not(len_formula(k, lo, hi, add, 'Eq', n))
    if not isinstance(m, int):
        return None
    if op == 'Gt':
        if m < 0:
            return T
        if w is not None and m >= w:
            return F
        return c('Gt', lo + m)
    if op == 'Ge':
        if m <= 0:
            return T
        if w is not None and m > w:
            return F
        return c('Ge', lo + m) if lo + m != 0 else T
    if op == 'Lt':
        return f_not(len_formula(k, lo, hi, add, 'Ge', n))
    if op == 'Le':
        return f_not(len_formula(k, lo, hi, add, 'Gt', n))
    if op == 'Eq':
        if m < 0 or (w is not None and m > w):
            return F
        if m == 0:
            return c('Eq', 0) if lo == 0 else c('Le', lo)
        if w is not None and m == w:
            return c('Ge', lo + m)
        return c('Eq', lo + m)
    return None


_LINE_PRED = {}


class Frame:
    def __init__(self, fn, mod, selfav, top=False):
        self.fn, self.mod, self.selfav, self.top = fn, mod, selfav, top
        self.env = {}
        self.defs = {}              # local -> the (simple) expression it was last assigned, locals expanded
        self.locals = local_names(fn) if fn is not None else set()
        self.returns = []
        self.loopdepth = 0
        self.unrolled = []          # stack: is the innermost loop unrolled?


class Scanner:
    """scans ONE handler (a branch of the dispatch chain, a constructor, Atom.parse_line)"""

    def __init__(self, prog, prims, ctx, pattr_cls=None, statevar=None):
        self.prog = prog
        self.prims = prims              # {(class name, method name): dict(kind=, flag=)}
        self.ctx = ctx                  # 'card' | 'parser'
        self.pattr_cls = pattr_cls or {}   # parser attribute -> ClassRef (from Shelxfile.__init__)
        self.statevar = statevar        # 'lastcard' or 'self.<attr>'
        self.steps, self.lost, self.notes = [], [], []
        self.cards_used = []            # (row name, ClassRef, method name)
        self.ntry = 0
        self.nloop = 0
        self.attrs = {}                 # attributes of the object under construction: name -> AV
        self.attr_guard = {}
        self.frames = []
        self.stack = []                 # functions being inlined (recursion guard)
        self.muted = 0
        self._caught_class = '.Other'
        self.cur_key = None             # the keyword of the line this pass is for: ('word', K) | ('starts', P) | ('atom', '') | ('else', '')
        self.kw_seen = []               # every keyword the code tests for, in the order the tests are met
        self.dead = False               # an unconditional `continue` has been reached

    # ---- helpers -------------------------------------------------------------------------------------------
    @property
    def fr(self):
        return self.frames[-1]

    def emit(self, g, act):
        conds, catch, tid = g
        if self.muted or self.dead:
            return
        if act == '.stop' and not conds and len(self.frames) == 1:
            self.dead = True
        if act.startswith(('.stop', '.setLast', '.setFlag')):
            # The model takes a test it cannot decide for possibly true.  That is the careful reading for a requirement
            # (it may be reached), not for leaving the handler or for changing the state: those must not hide what follows.
            undecided = [c for c in conds if c.kind == 'opaque' and not assume.known(c.args[0])]
            if undecided:
                if act.startswith('.stop'):
                    self.notes.append(f'`continue`/`return` under a test the model cannot decide ({undecided[0].args[0][:50]}): what follows is kept')
                    return
                self.lost.append(f'{act} under a test the model cannot decide: {undecided[0].args[0][:60]}')
        if any(c.kind == 'tok' for c in conds):
            rest = [c for c in conds if c.kind != 'tok']
            self.unknown_text(f'{act} under a test of a single token', (rest, catch, tid))
            return
        if contradictory(conds):
            return
        self.steps.append((list(conds), list(catch), tid, act))

    def unknown(self, node, g):
        self.unknown_text(ast.unparse(node)[:80] if isinstance(node, ast.AST) else str(node)[:80], g)

    def unknown_text(self, txt, g):
        if self.muted or self.dead:
            return
        conds = [c for c in g[0] if c.kind != 'tok']
        if contradictory(conds):
            return
        self.steps.append((conds, list(g[1]), g[2], f'.unknown {lean_str(txt)}'))
        self.lost.append(txt)

    def with_conds(self, g, extra):
        return (g[0] + list(extra), g[1], g[2])

    def ceval(self, node, extra=None):
        """constant value of an expression in the current frame; raises NotConst"""
        def lookup(name):
            if extra and name in extra:
                return extra[name]
            for_env = self.fr.env.get(name)
            if for_env is not None:
                if isinstance(for_env, Const):
                    return for_env.v
                if isinstance(for_env, Word) and self.cur_key is not None and self.cur_key[0] == 'word':
                    return self.cur_key[1]          # in the pass for one keyword, `word` is that keyword
                raise NotConst(name)
            if name in self.fr.locals:
                raise NotConst(name)
            return self.fr.mod.value(name)
        ce = CEval(lookup)
        ce.lookup_attr = self.prog.lookup_attr
        return ce.ev(node)

    # ---- opaque tests ------------------------------------------------------------------------------------------
    def subst(self, node):
        """the expression with the locals whose definition is known written out"""
        sc = self

        class Tr(ast.NodeTransformer):
            def visit_Name(self, n):
                if not isinstance(n.ctx, ast.Load):
                    return n
                av = sc.fr.env.get(n.id)
                if isinstance(av, Unk) and av.expr is not None:
                    return copy.deepcopy(av.expr)
                if n.id in sc.fr.defs and not isinstance(av, (Const, Line, Last)):
                    return copy.deepcopy(sc.fr.defs[n.id])
                if isinstance(av, Const) and isinstance(av.v, (int, float, str, bool, type(None))):
                    return ast.Constant(av.v)
                if isinstance(av, Line):
                    return ast.Name('line', ast.Load())
                if isinstance(av, Last):
                    return ast.Name('lastcard', ast.Load())
                return n
        return Tr().visit(copy.deepcopy(node))

    def line_predicate_false(self, expr):
        """a test of the text of the line only that is false on every line the generator writes"""
        names = {n.id for n in ast.walk(expr) if isinstance(n, ast.Name)}
        if 'line' not in names:
            return False
        key = (ast.dump(expr), self.fr.fn)
        if key in _LINE_PRED:
            return _LINE_PRED[key]
        r = self._line_predicate_false(expr)
        _LINE_PRED[key] = r
        return r

    def _line_predicate_false(self, expr):
        for n in ast.walk(expr):
            if isinstance(n, ast.Attribute) and isinstance(n.value, ast.Name) and n.value.id == 'self':
                return False
        try:
            for l in assume.SAMPLE_LINES:
                for v in (l, l.upper()):
                    if self.ceval(expr, extra={'line': v}):
                        return False
        except NotConst:
            return False
        return True

    def whole(self, node, f):
        """a compound test (`a or b`, `x < y <= z`) that is one of the assumptions as a whole is ONE atom"""
        if f in (T, F) or not all(c.kind == 'opaque' for c in self.atoms_of(f)):
            return f
        expr = self.subst(node)
        t = assume.match_assumption(expr)
        if t is not None:
            return f_atom(Cond('opaque', t))
        t = assume.match_assumption(ast.UnaryOp(ast.Not(), copy.deepcopy(expr)))
        if t is not None:
            return f_atom(Cond('opaque', assume.neg_text(t)))
        return f

    def atoms_of(self, f):
        if f[0] == 'c':
            return [f[1]]
        if f[0] in ('and', 'or'):
            return self.atoms_of(f[1]) + self.atoms_of(f[2])
        return []

    def opaque_formula(self, node):
        expr = self.subst(node)
        t = assume.match_assumption(expr)
        if t is not None:
            return f_atom(Cond('opaque', t))
        t = assume.match_assumption(ast.UnaryOp(ast.Not(), copy.deepcopy(expr)))
        if t is not None:
            return f_atom(Cond('opaque', assume.neg_text(t)))
        if self.line_predicate_false(expr):
            self.notes.append(f'test of the text of the line, false on every generated line: {ast.unparse(expr)[:70]}')
            return F
        return f_atom(Cond('opaque', ast.unparse(expr)))

    # ---- truth ------------------------------------------------------------------------------------------------
    def truth(self, av, node):
        if isinstance(av, Const):
            try:
                return T if av.v else F
            except Exception:
                return self.opaque_formula(node)
        if isinstance(av, Bool):
            return av.f
        if isinstance(av, Toks):
            f = len_formula(av.k, av.lo, av.hi, 0, 'Gt', 0)
            return f if f is not None else self.opaque_formula(node)
        if isinstance(av, Len):
            f = len_formula(av.k, av.lo, av.hi, av.add, 'Ne', 0)
            return f if f is not None else self.opaque_formula(node)
        if isinstance(av, Flag):
            return f_atom(Cond('flagOn', av.name))
        if isinstance(av, TokVal):
            c = self.tok_cond(av)
            if c is not None:
                return f_atom(c)
        if isinstance(av, KwTest):
            return self.kw_truth(av)
        return self.opaque_formula(node)

    @staticmethod
    def norm_item(it):
        kind, s = it
        if kind == 'starts' and len(s) >= 4:
            return ('word', s[:4])
        return (kind, s)

    @staticmethod
    def item_matches(it, key):
        """does the test item hold for a line whose keyword is `key`?"""
        if key[0] in ('atom', 'else'):
            return it[0] == key[0]
        if it[0] == 'atom':
            return False
        if it[1] == key[1]:
            return True
        return it[0] == 'starts' and key[1].startswith(it[1])

    def kw_truth(self, kt):
        """a test of the keyword is decided by the keyword this pass is for"""
        for it in kt.items:
            k = self.norm_item(it)
            if k not in self.kw_seen:
                self.kw_seen.append(k)
        if self.cur_key is None:
            return f_atom(Cond('opaque', 'kw:' + repr(kt.items)))
        hit = any(self.item_matches(it, self.cur_key) for it in kt.items)
        return T if hit != kt.negated else F

    def tok_cond(self, tv):
        per = {}
        for kind, reps in REPS.items():
            vals = set()
            for r in reps:
                try:
                    vals.add(bool(self.tokval_eval(tv, r)))
                except NotConst:
                    return None
            if len(vals) != 1:
                return None
            per[kind] = vals.pop()
        true = frozenset(k for k, v in per.items() if v)
        if not true or len(true) == len(per):
            return None
        return Cond('tok', tv.loop.lid, true, ast.unparse(tv.node)[:60])

    def tokval_eval(self, tv, rep):
        extra = {}
        for name, b in tv.binds.items():
            extra[name] = rep if b[0] == 'x' else b[1]

        def lookup(name):
            if name in extra:
                return extra[name]
            raise NotConst(name)
        ce = CEval(lookup)
        ce.lookup_attr = self.prog.lookup_attr
        return ce.ev(tv.node)

    def as_tokval(self, node):
        """node computed from ONE loop token and constants only -> TokVal"""
        if isinstance(node, (ast.Name, ast.Constant)):
            return None
        bound = set()
        for n in ast.walk(node):
            if isinstance(n, ast.comprehension):
                for t in ast.walk(n.target):
                    if isinstance(t, ast.Name):
                        bound.add(t.id)
            if isinstance(n, ast.Call) and isinstance(n.func, ast.Name) and n.func.id in ('float', 'int'):
                return None
            if isinstance(n, ast.Lambda):
                return None
        binds, loop = {}, None
        for n in ast.walk(node):
            if not isinstance(n, ast.Name) or n.id in bound or n.id in binds:
                continue
            av = self.fr.env.get(n.id)
            if isinstance(av, LoopEl) and not av.derived and av.k == 's':
                if loop is not None and loop.lid != av.lid:
                    return None
                loop = av
                binds[n.id] = ('x',)
            elif isinstance(av, Const):
                binds[n.id] = ('c', av.v)
            elif av is not None or n.id in self.fr.locals:
                return None
            else:
                try:
                    binds[n.id] = ('c', self.fr.mod.value(n.id))
                except NotConst:
                    if hasattr(builtins, n.id):
                        continue
                    return None
        if loop is None:
            return None
        tv = TokVal(loop, node, binds)
        try:
            for reps in REPS.values():
                for r in reps:
                    self.tokval_eval(tv, r)
        except NotConst:
            return None
        return tv

    # ---- tests (short-circuit aware) -----------------------------------------------------------------------------
    def test(self, node, g):
        """emit the hazards of evaluating the test under g; return its formula"""
        if isinstance(node, ast.BoolOp):
            f = T if isinstance(node.op, ast.And) else F
            for v in node.values:
                pre = f if isinstance(node.op, ast.And) else f_not(f)
                alts = xdnf(pre)
                fv = None
                if not alts:
                    self.muted += 1
                    fv = self.test(v, g)
                    self.muted -= 1
                for alt in alts:
                    r = self.test(v, self.with_conds(g, alt))
                    fv = r if fv is None else fv
                f = f_and(f, fv) if isinstance(node.op, ast.And) else f_or(f, fv)
            return self.whole(node, f)
        if isinstance(node, ast.UnaryOp) and isinstance(node.op, ast.Not):
            return f_not(self.test(node.operand, g))
        av = self.ev(node, g)
        return self.truth(av, node)

    # ---- expressions -------------------------------------------------------------------------------------------
    def ev(self, node, g):
        if node is None:
            return Const(None)
        if not isinstance(node, (ast.Name, ast.Constant, ast.Attribute)):
            tv = self.as_tokval(node)
            if tv is not None:
                return tv
        m = getattr(self, 'ev_' + type(node).__name__, None)
        if m is None:
            tr = False
            for ch in ast.iter_child_nodes(node):
                if isinstance(ch, ast.expr):
                    tr = self.ev(ch, g).tracked or tr
            return Unk(tracked=tr)
        return m(node, g)

    def ev_Constant(self, node, g):
        return Const(node.value)

    def ev_Name(self, node, g):
        fr = self.fr
        if node.id in fr.env:
            return fr.env[node.id]
        if node.id in fr.locals:
            return Unk()
        if node.id == 'self' and fr.selfav is not None:
            return fr.selfav
        try:
            return Const(fr.mod.value(node.id))
        except NotConst:
            pass
        if node.id in fr.mod.names:
            if hasattr(builtins, node.id) and node.id not in fr.mod.funcs and node.id not in fr.mod.classes \
                    and node.id not in fr.mod.assigns and node.id not in fr.mod.imports:
                return Builtin(node.id)
            return Unk()
        self.emit(g, '.raise .NameError')
        return Unk()

    def ev_Tuple(self, node, g):
        items = [self.ev(e.value if isinstance(e, ast.Starred) else e, g) for e in node.elts]
        if all(isinstance(i, Const) for i in items) and not any(isinstance(e, ast.Starred) for e in node.elts):
            return Const(tuple(i.v for i in items) if isinstance(node, ast.Tuple) else [i.v for i in items])
        return Tup(items)

    ev_List = ev_Tuple

    def ev_Set(self, node, g):
        try:
            return Const(self.ceval(node))
        except NotConst:
            tr = any([self.ev(e, g).tracked for e in node.elts])
            return Unk(tracked=tr)

    def ev_Dict(self, node, g):
        try:
            return Const(self.ceval(node))
        except NotConst:
            tr = False
            for e in list(node.keys) + list(node.values):
                if e is not None:
                    tr = self.ev(e, g).tracked or tr
            return Unk(tracked=tr)

    def ev_JoinedStr(self, node, g):
        for v in node.values:
            if isinstance(v, ast.FormattedValue):
                self.ev(v.value, g)
                if v.format_spec is not None:
                    self.ev(v.format_spec, g)
        return Unk()

    def ev_IfExp(self, node, g):
        f = self.test(node.test, g)
        vals = []
        for alt in xdnf(f):
            vals.append(self.ev(node.body, self.with_conds(g, alt)))
        for alt in xdnf(f_not(f)):
            vals.append(self.ev(node.orelse, self.with_conds(g, alt)))
        return self.merge_avs(vals)

    def ev_BoolOp(self, node, g):
        f = self.test(node, g)
        return Bool(f)

    def ev_UnaryOp(self, node, g):
        if isinstance(node.op, ast.Not):
            return Bool(f_not(self.test(node.operand, g)))
        av = self.ev(node.operand, g)
        if isinstance(av, Const):
            try:
                return Const(self.ceval(node))
            except NotConst:
                pass
        return Unk(tracked=av.tracked and not isinstance(av, (Elem, LoopEl)))

    def ev_BinOp(self, node, g):
        a = self.ev(node.left, g)
        b = self.ev(node.right, g)
        if isinstance(a, Const) and isinstance(b, Const):
            try:
                return Const(self.ceval(node))
            except NotConst:
                return Unk()
        if isinstance(node.op, (ast.Add, ast.Sub)):
            for x, y, flip in ((a, b, False), (b, a, True)):
                if isinstance(x, Len) and isinstance(y, Const) and isinstance(y.v, int) and not (flip and isinstance(node.op, ast.Sub)):
                    return Len(x.k, x.lo, x.hi, x.add + (y.v if isinstance(node.op, ast.Add) else -y.v))
            if isinstance(node.op, ast.Add) and (isinstance(a, (Line, LineParts)) or isinstance(b, (Line, LineParts))):
                up = all(getattr(x, 'upper', True) for x in (a, b) if isinstance(x, Line))
                return Line(upper=up) if isinstance(a, Line) else Unk()
            if isinstance(node.op, ast.Add) and isinstance(a, Toks) and isinstance(b, Toks):
                return Unk(tracked=True)
        if isinstance(a, (Elem, LoopEl)) and isinstance(node.op, ast.Mod):
            return Unk()
        tr = any(x.tracked and not isinstance(x, (Elem, LoopEl, TokVal)) for x in (a, b))
        return Unk(tracked=tr, expr=None if tr else self.subst(node))

    def ev_Compare(self, node, g):
        left = self.ev(node.left, g)
        f = T
        lnode = node.left
        for op, cn in zip(node.ops, node.comparators):
            right = self.ev(cn, g)
            one = self.compare1(op, left, right, ast.Compare(lnode, [op], [cn]), g)
            f = f_and(f, one) if not isinstance(one, KwTest) else one
            if isinstance(f, KwTest):
                return f if len(node.ops) == 1 else Unk()
            left, lnode = right, cn
        return Bool(self.whole(node, f) if len(node.ops) > 1 else f)

    def compare1(self, op, a, b, node, g):
        """formula (or KwTest) of one comparison"""
        if isinstance(a, Const) and isinstance(b, Const):
            try:
                return T if self.ceval(node) else F
            except NotConst:
                return self.opaque_formula(node)
        opn = CMP.get(type(op))
        # lengths
        for x, y, o in ((a, b, opn), (b, a, FLIP.get(opn))):
            if isinstance(x, Len) and isinstance(y, Const) and isinstance(y.v, int) and not isinstance(y.v, bool) and o:
                f = len_formula(x.k, x.lo, x.hi, x.add, o, y.v)
                if f is not None:
                    return f
        if isinstance(a, Len) and isinstance(op, (ast.In, ast.NotIn)) and isinstance(b, Const):
            try:
                f = F
                for v in b.v:
                    one = len_formula(a.k, a.lo, a.hi, a.add, 'Eq', v) if isinstance(v, int) else None
                    if one is None:
                        raise TypeError
                    f = f_or(f, one)
                return f if isinstance(op, ast.In) else f_not(f)
            except TypeError:
                pass
        if isinstance(a, Len) and isinstance(b, Len) and opn:
            return f_atom(Cond('opaque', ast.unparse(self.subst(node))))
        # an empty list compared with a list constant: p == []
        for x, y in ((a, b), (b, a)):
            if isinstance(x, Toks) and isinstance(y, Const) and y.v in ([], ()) and opn in ('Eq', 'Ne'):
                f = len_formula(x.k, x.lo, x.hi, 0, 'Eq', 0)
                if f is not None:
                    return f if opn == 'Eq' else f_not(f)
        # the state variable
        for x, y in ((a, b), (b, a)):
            if isinstance(x, Last) and isinstance(y, Const):
                if opn in ('Eq', 'Ne') and isinstance(y.v, str):
                    return f_atom(Cond('last' + opn, y.v))
                if isinstance(op, (ast.In, ast.NotIn)) and x is a:
                    try:
                        vals = list(y.v) if isinstance(y.v, (tuple, list)) else sorted(y.v)
                        if all(isinstance(v, str) for v in vals):
                            return f_atom(Cond('lastIn' if isinstance(op, ast.In) else 'lastNotIn', vals))
                    except TypeError:
                        pass
        # the keyword
        kt = self.kwtest(op, a, b)
        if kt is not None:
            return kt
        if isinstance(a, (Word, Pref)) or isinstance(b, (Word, Pref)):
            if not self.muted:
                self.lost.append('test of the keyword not understood: ' + ast.unparse(node)[:60])
        if isinstance(a, (Elem, LoopEl, TokVal)) or isinstance(b, (Elem, LoopEl, TokVal)):
            return self.opaque_formula(node)
        return self.opaque_formula(node)

    def kwtest(self, op, a, b):
        neg = isinstance(op, (ast.NotEq, ast.NotIn))
        if isinstance(op, (ast.Eq, ast.NotEq)):
            for x, y in ((a, b), (b, a)):
                if isinstance(x, Word) and isinstance(y, Const) and isinstance(y.v, str):
                    return KwTest([('word', y.v)], neg)
                if isinstance(x, Pref) and isinstance(y, Const) and isinstance(y.v, str) and len(y.v) == x.n:
                    return KwTest([('starts', y.v)], neg)
        if isinstance(op, (ast.In, ast.NotIn)) and isinstance(a, Word) and isinstance(b, Const):
            try:
                vals = list(b.v) if isinstance(b.v, (tuple, list, dict)) else sorted(b.v)
            except TypeError:
                return None
            if vals and all(isinstance(v, str) for v in vals):
                return KwTest([('word', v) for v in vals], neg)
        return None

    # ---- subscripts --------------------------------------------------------------------------------------------
    def const_int(self, node):
        try:
            v = self.ceval(node)
        except NotConst:
            return None
        return v if isinstance(v, int) and not isinstance(v, bool) else None

    def ev_Subscript(self, node, g):
        base = self.ev(node.value, g)
        sl = node.slice
        if isinstance(base, Toks):
            if isinstance(sl, ast.Slice):
                lo = 0 if sl.lower is None else self.const_int(sl.lower)
                hi = None if sl.upper is None else self.const_int(sl.upper)
                if sl.lower is not None and lo is None:
                    self.ev(sl.lower, g)
                if sl.upper is not None and hi is None:
                    self.ev(sl.upper, g)
                if sl.step is not None or lo is None or lo < 0 or (sl.upper is not None and (hi is None or hi < 0)):
                    # extended / negative slices never raise; the copy holds some of the elements
                    return Sub(base.k, base.lo)
                nlo = base.lo + lo
                nhi = base.hi if hi is None else (base.lo + hi if base.hi is None else min(base.hi, base.lo + hi))
                return Toks(base.k, nlo, nhi, alias=False, raw=base.raw)
            iav = self.ev(sl, g)
            if isinstance(iav, Const) and isinstance(iav.v, int) and not isinstance(iav.v, bool):
                i = iav.v
                K = base.k.upper()
                if i >= 0:
                    idx = base.lo + i
                    if base.hi is not None and idx >= base.hi:
                        self.emit(g, '.raise .IndexError')
                        return Unk()
                    self.emit(g, f'.need{K} {idx}')
                    return Elem(base.k, idx) if base.raw else Unk()
                if base.hi is None:
                    self.emit(g, f'.need{K} {base.lo + (-i) - 1}')
                    return Elem(base.k, None) if base.raw else Unk()
                self.unknown(node, g)
                return Unk()
            if isinstance(iav, LoopIdx) and iav.k == base.k and base.lo == 0 and base.hi is None:
                return LoopEl(base.k, iav.lo, iav.hi, iav.lid) if base.raw else Unk()
            self.unknown(node, g)
            return Unk(tracked=True)
        if isinstance(base, Sub):
            self.ev(sl, g) if not isinstance(sl, ast.Slice) else None
            if isinstance(sl, ast.Slice):
                return Sub(base.k, base.lo)
            if base.k == 's':
                self.unknown(node, g)
            return Unk(tracked=base.k == 's')
        if isinstance(base, (Elem, LoopEl)):
            if not isinstance(sl, ast.Slice):
                self.ev(sl, g)
            if isinstance(base, Elem):
                return Elem(base.k, base.i, derived=True)
            return LoopEl(base.k, base.lo, base.hi, base.lid, derived=True)
        if isinstance(base, (Line, LineParts)):
            if isinstance(base, LineParts):
                i = None if isinstance(sl, ast.Slice) else self.const_int(sl)
                return Line(upper=base.upper) if i == 0 else Unk()
            if isinstance(sl, ast.Slice) and sl.step is None and (sl.lower is None or self.const_int(sl.lower) == 0):
                hi = None if sl.upper is None else self.const_int(sl.upper)
                if hi == 4:
                    return Word()
                if hi is not None and 0 < hi < 4:
                    return Pref(hi)       # line[:3] == 'REM' is as good as startswith
            return Unk()
        if isinstance(base, Word):
            if isinstance(sl, ast.Slice) and sl.step is None and (sl.lower is None or self.const_int(sl.lower) == 0):
                hi = None if sl.upper is None else self.const_int(sl.upper)
                if hi is None or hi >= 4:
                    return Word()
                if 0 < hi < 4:
                    return Pref(hi)
            return Unk()
        if isinstance(base, ResList):
            if not isinstance(sl, ast.Slice):
                self.ev(sl, g)
            return Line(upper=False)
        if isinstance(base, Const):
            try:
                return Const(self.ceval(node))
            except NotConst:
                iav = self.ev(sl, g) if not isinstance(sl, ast.Slice) else Unk()
                if isinstance(iav, Const):
                    try:
                        base.v[iav.v]
                    except (KeyError, IndexError) as e:
                        self.emit(g, f'.raise .{type(e).__name__}')
                    except Exception:
                        pass
                return Unk(tracked=iav.tracked and not isinstance(iav, (Elem, LoopEl)))
        if isinstance(base, Tup) and not isinstance(sl, ast.Slice):
            i = self.const_int(sl)
            if i is not None and -len(base.items) <= i < len(base.items):
                return base.items[i]
        if isinstance(sl, ast.Slice):
            for x in (sl.lower, sl.upper, sl.step):
                if x is not None:
                    self.ev(x, g)
            return Unk(tracked=base.tracked and not isinstance(base, (TokVal,)))
        iav = self.ev(sl, g)
        if isinstance(base, TokVal):
            return Unk()
        if isinstance(base, Unk) and base.tracked:
            self.unknown(node, g)       # an index into a list derived from the tokens that the reader lost track of
        return Unk(tracked=base.tracked)

    def ev_Slice(self, node, g):
        for x in (node.lower, node.upper, node.step):
            if x is not None:
                self.ev(x, g)
        return Unk()

    def ev_Starred(self, node, g):
        return self.ev(node.value, g)

    def ev_NamedExpr(self, node, g):
        av = self.ev(node.value, g)
        self.bind(node.target, av, g, node)
        return av

    def ev_Lambda(self, node, g):
        return LocalFn(node)

    # ---- attributes -------------------------------------------------------------------------------------------
    def mro_assigns(self, cls, attr):
        """does the class (or a base) ever assign self.<attr>, or define it in the class body?"""
        for r in self.prog.mro(cls):
            c = self.prog.cls(r)
            for n in ast.walk(c):
                if isinstance(n, ast.Attribute) and isinstance(n.ctx, ast.Store) and isinstance(n.value, ast.Name) \
                        and n.value.id == 'self' and n.attr == attr:
                    return True
                if isinstance(n, ast.Call) and isinstance(n.func, ast.Name) and n.func.id == 'setattr' and len(n.args) == 3 \
                        and isinstance(n.args[1], ast.Constant) and n.args[1].value == attr:
                    return True
            for st in c.body:
                if isinstance(st, (ast.Assign, ast.AnnAssign)):
                    tg = st.targets if isinstance(st, ast.Assign) else [st.target]
                    if any(isinstance(t, ast.Name) and t.id == attr for t in tg):
                        return True
                if isinstance(st, ast.FunctionDef) and st.name == attr:
                    return True
        return False

    def ev_Attribute(self, node, g):
        base = self.ev(node.value, g)
        return self.getattr(base, node.attr, node, g)

    def getattr(self, base, attr, node, g):
        if isinstance(base, SelfV) and base.kind == 'card':
            if attr in ('shx', '_shx') and attr not in self.attrs:
                if self.mro_assigns(base.cls, attr):
                    return ShxV()
                self.emit(g, '.raise .AttributeError')
                return Unk()
            if attr in self.attr_guard:
                gs = self.attr_guard[attr]
                if gs and all(len(x) == 1 for x in gs) and len({x[0].key() for x in gs}) == 1:
                    # e.g. `self.d` of DFIX is assigned under `len(p) > 0` only: reading it otherwise is an AttributeError
                    self.emit(self.with_conds(g, [gs[0][0].neg()]), '.raise .AttributeError')
            if attr in self.attrs:
                return self.attrs[attr]
            r, fn = self.prog.method(base.cls, attr)
            if fn is not None:
                if 'property' in decorators(fn):
                    if self.property_worth_following(fn):
                        return self.inline(fn, r, base, [], {}, g, node)
                    return Unk()
                return Meth(base, r, attr)
            r, expr = self.prog.class_assign(base.cls, attr)
            if expr is not None:
                try:
                    return Const(self.prog.module(r.mod).evaluator().ev(expr))
                except NotConst:
                    return Unk()
            return Unk(expr=self.subst(node) if isinstance(node, ast.AST) else None)
        if isinstance(base, SelfV) and base.kind == 'parser':
            if attr in MODES:
                return Bool(f_atom(Cond('mode', {MODES[attr]})))
            if self.statevar == 'self.' + attr:
                return Last()
            if attr in FLAGS:
                return Flag(FLAGS[attr], self.pattr_cls.get(attr))
            if attr == '_reslist':
                return ResList()
            if attr == 'shx':
                self.emit(g, '.raise .AttributeError')
                return Unk()
            if attr in self.attrs:
                return self.attrs[attr]
            r, fn = self.prog.method(base.cls, attr)
            if fn is not None:
                if 'property' in decorators(fn):
                    return Unk()
                return Meth(base, r, attr)
            if attr in self.pattr_cls:
                return Inst(self.pattr_cls[attr])
            r, expr = self.prog.class_assign(base.cls, attr)
            if expr is not None:
                try:
                    return Const(self.prog.module(r.mod).evaluator().ev(expr))
                except NotConst:
                    return Unk()
            return Unk(expr=self.subst(node) if isinstance(node, ast.AST) else None)
        if isinstance(base, ShxV):
            if attr in MODES:
                return Bool(f_atom(Cond('mode', {MODES[attr]})))
            return Unk(expr=self.subst(node) if isinstance(node, ast.AST) else None)
        if isinstance(base, Const) and isinstance(base.v, (ClassRef, ModRef)):
            try:
                v = self.prog.lookup_attr(base.v, attr)
            except NotConst:
                return Unk()
            if isinstance(v, FuncRef) and isinstance(base.v, ClassRef):
                return Meth(None, ClassRef(v.mod, v.cls), attr)
            return Const(v)
        if isinstance(base, (Inst, Flag)) and base.cls is not None:
            r, fn = self.prog.method(base.cls, attr)
            if fn is not None and 'property' not in decorators(fn):
                return Meth(base, r, attr)
            return Unk()
        if isinstance(base, Const):
            return Meth(base, None, attr)
        if isinstance(base, (Toks, Sub, Elem, LoopEl, TokVal, Line, LineParts, Word, Join, Tup, ResList)):
            return Meth(base, None, attr)
        return Unk(tracked=False, expr=self.subst(node) if isinstance(node, ast.AST) and isinstance(base, Unk) and base.expr is not None else None)

    def property_worth_following(self, fn):
        names = {n.attr for n in ast.walk(fn) if isinstance(n, ast.Attribute) and isinstance(n.value, ast.Name) and n.value.id == 'self'}
        return any(a in names and self.attrs[a].tracked for a in self.attrs)

    # ---- calls -------------------------------------------------------------------------------------------------
    def args_of(self, node, g):
        args = [self.ev(a, g) for a in node.args]
        kw = {k.arg: self.ev(k.value, g) for k in node.keywords if k.arg is not None}
        for k in node.keywords:
            if k.arg is None:
                self.ev(k.value, g)
        return args, kw

    def ev_Call(self, node, g):
        f = node.func
        # super().__init__(…) / super(C, self).m(…)
        if isinstance(f, ast.Attribute) and isinstance(f.value, ast.Call) and isinstance(f.value.func, ast.Name) and f.value.func.id == 'super':
            args, kw = self.args_of(node, g)
            sv = self.fr.selfav
            here = self.cls_of_frame()
            if isinstance(sv, SelfV) and here is not None:
                mro = self.prog.mro(sv.cls)
                if here in mro:
                    for r in mro[mro.index(here) + 1:]:
                        c = self.prog.cls(r)
                        fn = next((s for s in c.body if isinstance(s, ast.FunctionDef) and s.name == f.attr), None)
                        if fn is not None:
                            return self.inline(fn, r, sv, args, kw, g, node)
            return Unk()
        if isinstance(f, ast.Name) and f.id not in self.fr.env and f.id not in self.fr.locals:
            special = getattr(self, 'call_' + f.id, None)
            if special is not None and not self.shadowed(f.id):
                return special(node, g)
        fv = self.ev(f, g)
        args, kw = self.args_of(node, g)
        return self.apply(fv, args, kw, node, g)

    def shadowed(self, name):
        m = self.fr.mod
        return name in m.funcs or name in m.classes or name in m.assigns or name in m.imports

    def cls_of_frame(self):
        return getattr(self.fr, 'owner', None)

    def call_len(self, node, g):
        if len(node.args) != 1:
            return Unk()
        av = self.ev(node.args[0], g)
        if isinstance(av, Toks):
            return Len(av.k, av.lo, av.hi)
        if isinstance(av, Const):
            try:
                return Const(len(av.v))
            except TypeError:
                return Unk()
        if isinstance(av, Tup):
            return Const(len(av.items))
        if isinstance(av, Sub):
            return Unk(tracked=av.k == 's')
        return Unk(expr=self.subst(node) if not av.tracked else None)

    def call_bool(self, node, g):
        if len(node.args) != 1:
            return Unk()
        return Bool(self.test(node.args[0], g))

    def call_float(self, node, g):
        return self.conversion('float', node, g)

    def call_int(self, node, g):
        return self.conversion('int', node, g)

    def conversion(self, which, node, g):
        if len(node.args) != 1 or node.keywords:
            for a in node.args:
                self.ev(a, g)
            return Unk()
        n0 = len(self.steps)
        av = self.ev(node.args[0], g)
        if isinstance(av, Elem):
            if av.k == 's':
                if av.i is None:
                    self.unknown(node, g)
                    return Unk()
                # `float(spline[i])`: the read and the conversion are one requirement
                if len(self.steps) == n0 + 1 and self.steps[-1][3] == f'.needS {av.i}' and not self.muted:
                    self.steps.pop()
                self.emit(g, f'.to{which.capitalize()} {av.i}')
            elif av.k == 'w':
                self.unknown(node, g)
            return Unk()
        if isinstance(av, LoopEl):
            if av.k == 's':
                self.convert_loop(which, av, av.derived, node, g)
            elif av.k == 'w':
                self.unknown(node, g)
            return Unk()
        if isinstance(av, TokVal):
            ident = True
            try:
                for reps in REPS.values():
                    for r in reps:
                        if self.tokval_eval(av, r) != r:
                            ident = False
            except NotConst:
                ident = False
            self.convert_loop(which, av.loop, not ident, node, g)
            return Unk()
        if isinstance(av, Const):
            try:
                return Const((float if which == 'float' else int)(av.v))
            except (ValueError, TypeError) as e:
                self.emit(g, f'.raise .{type(e).__name__}' if type(e).__name__ in PLAIN_ERRS else '.raise .Other')
                return Unk()
        if av.tracked and not isinstance(av, (Len,)):
            self.unknown(node, g)
        return Unk()

    def convert_loop(self, which, loop, derived, node, g):
        conds, catch, tid = g
        mine = [c for c in conds if c.kind == 'tok' and c.args[0] == loop.lid]
        rest = [c for c in conds if not (c.kind == 'tok' and c.args[0] == loop.lid)]
        K = set(KINDS)
        for c in mine:
            K &= set(c.args[1])
        g2 = (rest, catch, tid)
        ok = FLOAT_OK if which == 'float' else INT_OK
        if derived:
            if K <= {'word', 'sym', 'enum'}:
                return          # conversion of a *part* of a word-like token (chain:number): value level, not modelled
            self.unknown(node, g2)
            return
        if not (K - ok):
            return              # cannot fail on the tokens that get here
        if which == 'float' and K == set(KINDS):
            self.emit(g2, f'.floatFrom {loop.lo}' if loop.hi is None else f'.floatRange {loop.lo} {loop.hi}')
            return
        if which == 'int' and loop.hi is None and {'int', 'num', 'big', 'dnum'} <= K and not (K & {'word', 'sym'}):
            self.emit(g2, f'.intNonWord {loop.lo}')      # every token without a letter goes through int()
            return
        self.unknown(node, g2)

    def call_setattr(self, node, g):
        if len(node.args) == 3:
            obj = self.ev(node.args[0], g)
            name = self.ev(node.args[1], g)
            val = self.ev(node.args[2], g)
            if isinstance(obj, SelfV) and isinstance(name, Const) and isinstance(name.v, str):
                self.store_attr(obj, name.v, val, g, node)
            elif isinstance(obj, SelfV) and val.tracked:
                self.unknown(node, g)
            return Const(None)
        self.args_of(node, g)
        return Unk()

    def call_getattr(self, node, g):
        if len(node.args) >= 2:
            obj = self.ev(node.args[0], g)
            name = self.ev(node.args[1], g)
            for a in node.args[2:]:
                self.ev(a, g)
            if isinstance(name, Const) and isinstance(name.v, str) and len(node.args) == 2:
                return self.getattr(obj, name.v, node, g)
            return Unk()
        self.args_of(node, g)
        return Unk()

    def call_list(self, node, g):
        if len(node.args) == 1 and not node.keywords:
            av = self.ev(node.args[0], g)
            if isinstance(av, Toks):
                return Toks(av.k, av.lo, av.hi, alias=False, raw=av.raw)
            if isinstance(av, (Sub,)):
                return av
            if isinstance(av, Const):
                try:
                    return Const(list(av.v))
                except TypeError:
                    return Unk()
            return Unk(tracked=av.tracked and not isinstance(av, (Elem, LoopEl, TokVal)))
        self.args_of(node, g)
        return Unk()

    call_tuple = call_list

    def call_map(self, node, g):
        if len(node.args) == 2 and isinstance(node.args[0], ast.Name) and node.args[0].id in ('float', 'int') \
                and not self.shadowed(node.args[0].id):
            av = self.ev(node.args[1], g)
            if isinstance(av, (Toks, Sub)):
                if av.k == 's':
                    self.nloop += 1
                    loop = LoopEl('s', av.lo, getattr(av, 'hi', None), self.nloop)
                    self.convert_loop(node.args[0].id, loop, False, node, g)
                if isinstance(av, Toks):
                    return Toks(av.k, av.lo, av.hi, alias=False, raw=False)
                return Unk()
            if av.tracked:
                self.unknown(node, g)
            return Unk()
        args, kw = self.args_of(node, g)
        if any(a.tracked and not isinstance(a, (Elem, LoopEl)) for a in args[1:]) and len(args) >= 2:
            self.unknown(node, g)
        return Unk()

    def call_isinstance(self, node, g):
        self.args_of(node, g)
        return Unk()

    def call_print(self, node, g):
        self.args_of(node, g)
        return Const(None)

    def apply(self, fv, args, kw, node, g):
        if isinstance(fv, Meth):
            return self.call_method(fv, args, kw, node, g)
        if isinstance(fv, LocalFn):
            return self.inline_local(fv.node, args, kw, g, node)
        if isinstance(fv, Const) and isinstance(fv.v, FuncRef):
            fn = self.prog.func(fv.v)
            if fn is not None and self.worth_inlining(fn, None, args, kw):
                owner = ClassRef(fv.v.mod, fv.v.cls) if fv.v.cls else None
                return self.inline(fn, owner or fv.v.mod, None, args, kw, g, node)
            return Unk()
        if isinstance(fv, Const) and isinstance(fv.v, ClassRef):
            return self.construct(fv.v, args, kw, node, g)
        if isinstance(fv, Builtin):
            if all(isinstance(a, Const) for a in args) and all(isinstance(a, Const) for a in kw.values()):
                try:
                    return Const(self.ceval(node))
                except NotConst:
                    pass
            if fv.name in ('any', 'all', 'sum', 'min', 'max', 'abs', 'str', 'repr', 'round', 'sorted', 'set', 'frozenset', 'dict',
                           'enumerate', 'zip', 'reversed', 'range', 'iter', 'next', 'type', 'id', 'hasattr', 'callable', 'format',
                           'chr', 'ord', 'divmod', 'pow', 'filter', 'issubclass', 'vars'):
                return Unk()
            return Unk()
        # anything else: the arguments have been evaluated; a tracked list handed to code the reader cannot see is lost
        if any(self.is_base_spline(a) and a.alias for a in list(args) + list(kw.values())) and isinstance(fv, Unk):
            self.unknown(node, g)       # (a copy / slice handed to code the reader does not see cannot change what follows)
        return Unk()

    def is_base_spline(self, av):
        return isinstance(av, Toks) and av.k == 's' and av.lo == 0 and av.hi is None

    def construct(self, cls, args, kw, node, g):
        allargs = list(args) + list(kw.values())
        if any(self.is_base_spline(a) for a in allargs):
            r, init = self.prog.method(cls, '__init__')
            if init is not None:
                self.use_card(cls.name, cls, '__init__', g, args, kw)
                return Inst(cls)
        elif any(isinstance(a, (Toks, Sub)) and a.k == 's' for a in allargs):
            self.unknown(node, g)
        return Inst(cls)

    def use_card(self, row, cls, meth, g, args, kw):
        def role(a):
            if self.is_base_spline(a):
                return 'S'
            if (isinstance(a, SelfV) and a.kind == 'parser') or isinstance(a, ShxV):
                return 'shx'
            return 'unk'
        sig = (tuple(role(a) for a in args), tuple(sorted((k, role(v)) for k, v in kw.items())))
        self.cards_used.append((row, cls, meth, sig))
        self.emit(g, f'.card {lean_str(row)}')

    def worth_inlining(self, fn, recv, args, kw):
        """follow a call into code of the package only when it can matter: a tracked value, the line, the state variable, a
        flag, the diagnostic mode or the parser / card object itself goes in, or (methods of the object itself) the body
        raises or touches the state the model keeps"""
        for a in list(args) + list(kw.values()):
            if self.hot(a) or isinstance(a, (Line, LineParts, Word, Pref, Last, Flag, SelfV, ShxV)):
                return True
            if isinstance(a, Bool) and a.f not in (T, F):
                return True
        if isinstance(recv, SelfV) and recv.kind == 'card':
            return True
        if isinstance(recv, SelfV) and recv.kind == 'parser':
            for n in ast.walk(fn):
                if isinstance(n, ast.Raise):
                    return True
                if isinstance(n, ast.Attribute) and isinstance(n.ctx, ast.Store) and isinstance(n.value, ast.Name) and n.value.id == 'self' \
                        and (n.attr in FLAGS or self.statevar == 'self.' + n.attr):
                    return True
                if isinstance(n, ast.Call) and isinstance(n.func, ast.Name) and n.func.id == 'setattr':
                    return True
        return False

    def hot(self, av):
        if isinstance(av, (Toks, Sub, Len, LoopIdx, Join, TokVal)):
            return True
        if isinstance(av, (Elem, LoopEl)):
            return av.k == 's'
        if isinstance(av, Tup):
            return any(self.hot(i) for i in av.items)
        return isinstance(av, Unk) and av.tracked

    def call_method(self, m, args, kw, node, g):
        recv, name = m.recv, m.name
        # ---- methods of the package --------------------------------------------------------------------------
        if m.owner is not None:
            r, fn = self.prog.method(m.owner, name)
            if fn is None:
                return Unk()
            decs = decorators(fn)
            if name == 'is_atom' and len(args) == 1 and isinstance(args[0], Line):
                return KwTest([('atom', '')])
            prim = self.prims.get((r.name, name))
            if prim is not None and isinstance(recv, SelfV) and recv.kind == 'card':
                return self.primitive(prim, fn, args, kw, node, g)
            if isinstance(recv, (Inst, Flag)):
                # a method of another object of the package that is given the token list: its requirements are a card row
                allargs = list(args) + list(kw.values())
                if any(self.is_base_spline(a) for a in allargs):
                    row = r.name if (r.name == 'Atom' and name == 'parse_line') else f'{r.name}.{name}'
                    self.use_card(row, recv.cls, name, g, args, kw)
                    if isinstance(recv, Flag):
                        self.emit((g[0], [], 0), f'.setFlag {lean_str(recv.name)} true')
                    return Unk()
                if any(isinstance(a, (Toks, Sub)) and a.k == 's' for a in allargs):
                    self.unknown(node, g)
                return Unk()
            if 'staticmethod' in decs:
                if self.worth_inlining(fn, None, args, kw):
                    return self.inline(fn, r, None, args, kw, g, node)
                return Unk()
            if 'classmethod' in decs:
                if self.worth_inlining(fn, None, args, kw):
                    return self.inline(fn, r, Const(r), args, kw, g, node)
                return Unk()
            if recv is None:
                # Class.method(obj, …)
                if args and self.worth_inlining(fn, args[0], args[1:], kw):
                    return self.inline(fn, r, args[0], args[1:], kw, g, node)
                return Unk()
            if isinstance(recv, SelfV):
                if name == '__init__' and not any(self.hot(a) for a in args):
                    return Unk()
                if self.worth_inlining(fn, recv, args, kw):
                    return self.inline(fn, r, recv, args, kw, g, node)
                return Unk()
            return Unk()
        # ---- methods of builtin values ------------------------------------------------------------------------
        if isinstance(recv, Toks):
            return self.list_method(recv, name, args, node, g)
        if isinstance(recv, Sub):
            return Unk(tracked=recv.k == 's' and name not in ('index', 'count'))
        if isinstance(recv, (Elem, LoopEl)):
            if name in ('upper', 'lower', 'strip', 'rstrip', 'lstrip', 'capitalize', 'title', 'replace', 'split', 'rsplit', 'partition',
                        'rpartition', 'casefold', 'removeprefix', 'removesuffix', 'expandtabs', 'format', 'zfill', 'ljust', 'rjust'):
                if isinstance(recv, Elem):
                    return Elem(recv.k, recv.i, derived=True)
                return LoopEl(recv.k, recv.lo, recv.hi, recv.lid, derived=True)
            return Unk()
        if isinstance(recv, Const):
            if isinstance(recv.v, str) and name == 'join' and len(args) == 1:
                a = args[0]
                if isinstance(a, Toks) and a.raw and a.k == 's' and a.hi is None and recv.v == '':
                    return Join(a.lo)
                return Unk()
            if all(isinstance(a, Const) for a in args) and all(isinstance(a, Const) for a in kw.values()):
                try:
                    return Const(self.ceval(node))
                except NotConst:
                    return Unk()
            if isinstance(recv.v, re.Pattern) and name in ('match', 'search', 'fullmatch') and args and isinstance(args[0], (Line, Word)):
                return Unk(expr=self.subst(node))
            if isinstance(recv.v, (dict,)) and name == 'get' and args and isinstance(args[0], (Elem, LoopEl)):
                return Unk()
            return Unk(tracked=any(self.hot(a) for a in args) and name not in ('join', 'format', 'index', 'count', 'get'))
        if isinstance(recv, Join):
            if name == 'isalpha':
                return Bool(f_atom(Cond('restAlpha', recv.lo)))
            return Unk(tracked=True)
        if isinstance(recv, (Line, LineParts)):
            if isinstance(recv, Line):
                if name in ('upper', 'lower', 'casefold'):
                    return Line(upper=recv.upper or name == 'upper')
                if name in ('rstrip', 'expandtabs'):
                    return Line(upper=recv.upper)
                if name in ('split', 'rsplit') and not args and not kw:
                    return Toks('s')
                if name in ('split', 'rsplit', 'partition', 'rpartition'):
                    return LineParts(upper=recv.upper)
                if name == 'startswith' and len(args) == 1 and isinstance(args[0], Const):
                    v = args[0].v
                    vals = [v] if isinstance(v, str) else list(v) if isinstance(v, (tuple, list)) else None
                    if vals and all(isinstance(x, str) and x for x in vals):
                        return KwTest([('starts', x) for x in vals])
            return Unk(expr=self.subst(node) if isinstance(node, ast.AST) else None)
        if isinstance(recv, Word):
            if name in ('strip', 'rstrip', 'upper'):
                return Word()
            if isinstance(node, ast.AST):
                try:
                    return Const(self.ceval(node))
                except NotConst:
                    pass
            if name == 'startswith' and len(args) == 1 and isinstance(args[0], Const) and isinstance(args[0].v, (str, tuple)):
                v = args[0].v
                vals = [v] if isinstance(v, str) else list(v)
                if all(isinstance(x, str) and x for x in vals):
                    return KwTest([('starts', x) for x in vals])
            return Unk()
        if isinstance(recv, TokVal):
            return Unk()
        return Unk(tracked=False)

    def list_method(self, recv, name, args, node, g):
        K = recv.k.upper()
        if name == 'pop':
            i = args[0].v if args and isinstance(args[0], Const) and isinstance(args[0].v, int) else (None if args else -1)
            if recv.alias and recv.k == 's' and i is not None and i >= 0:
                self.emit(g, f'.popS {i}')
                return Elem('s', None)
            if recv.alias and recv.k == 'p' and i == 0:
                self.emit(g, '.popP')
                return Elem('p', None)
            self.unknown(node, g)
            return Unk()
        if name in ('copy',):
            return Toks(recv.k, recv.lo, recv.hi, alias=False, raw=recv.raw)
        if name in ('index', 'count', '__len__'):
            return Unk()
        if name in ('append', 'extend', 'insert', 'remove', 'clear', 'sort', 'reverse') and recv.alias:
            self.unknown(node, g)
            return Unk()
        return Unk(tracked=False)

    def primitive(self, prim, fn, args, kw, node, g):
        allargs = list(args)
        if not allargs or not self.is_base_spline(allargs[0]):
            first = next(iter(kw.values()), None) if not allargs else None
            if first is None or not self.is_base_spline(first):
                self.unknown(node, g)
                return Tup([Unk(tracked=True), Unk(tracked=True)])
        if prim['kind'] == 'restr':
            self.emit(g, '.parseRestr')
        else:
            flag = Const(False)
            if prim.get('flag'):
                if len(args) > 1:
                    flag = args[1]
                elif prim['flag'] in kw:
                    flag = kw[prim['flag']]
            if not isinstance(flag, Const):
                self.unknown(node, g)
                return Tup([Unk(tracked=True), Unk(tracked=True)])
            self.emit(g, f'.parseCmd {"true" if flag.v else "false"}')
        return Tup([Toks('p'), Toks('w')])

    # ---- inlining ----------------------------------------------------------------------------------------------
    def inline(self, fn, owner, selfav, args, kw, g, node):
        """walk the body of a function of the package with its parameters bound; returns the value it returns"""
        if len(self.frames) > MAX_DEPTH or fn in self.stack:
            if any(self.hot(a) for a in list(args) + list(kw.values())):
                self.unknown(node, g)
            return Unk()
        if isinstance(owner, ClassRef):
            mod = self.prog.module(owner.mod)
        else:
            mod = self.prog.module(owner)
            owner = None
        fr = Frame(fn, mod, selfav if isinstance(selfav, SelfV) else None)
        fr.owner = owner
        a = fn.args
        params = [x.arg for x in a.posonlyargs + a.args]
        decs = decorators(fn)
        vals = list(args)
        if selfav is not None and 'staticmethod' not in decs:
            vals = [selfav] + vals
        for p, v in zip(params, vals):
            fr.env[p] = v
        if len(vals) > len(params):
            if a.vararg:
                fr.env[a.vararg.arg] = Tup(vals[len(params):])
            elif any(self.hot(v) for v in vals[len(params):]):
                self.unknown(node, g)
        defaults = dict(zip(params[len(params) - len(a.defaults):], a.defaults))
        for x, d in zip(a.kwonlyargs, a.kw_defaults):
            if d is not None:
                defaults[x.arg] = d
        for p in params[len(vals):] + [x.arg for x in a.kwonlyargs]:
            if p in kw:
                fr.env[p] = kw[p]
            elif p in defaults:
                try:
                    fr.env[p] = Const(mod.evaluator().ev(defaults[p]))
                except NotConst:
                    fr.env[p] = Unk()
            else:
                fr.env[p] = Unk()
        if a.kwarg:
            fr.env[a.kwarg.arg] = Unk()
        if fr.selfav is None and selfav is not None and params and 'staticmethod' not in decs:
            fr.env[params[0]] = selfav
        self.frames.append(fr)
        self.stack.append(fn)
        try:
            self.walk(fn.body, g)
        finally:
            self.stack.pop()
            self.frames.pop()
        if not fr.returns:
            return Const(None)
        return self.merge_avs(fr.returns)

    def inline_local(self, fn, args, kw, g, node):
        """a nested function / lambda: its body sees the locals of the function around it"""
        if len(self.frames) > MAX_DEPTH or fn in self.stack:
            if any(self.hot(a) for a in list(args) + list(kw.values())):
                self.unknown(node, g)
            return Unk()
        outer = self.fr
        fr = Frame(None, outer.mod, outer.selfav)
        fr.fn = outer.fn
        fr.owner = getattr(outer, 'owner', None)
        fr.locals = set(outer.locals) | {n.id for n in ast.walk(fn) if isinstance(n, ast.Name) and isinstance(n.ctx, ast.Store)}
        fr.env = dict(outer.env)
        fr.defs = dict(outer.defs)
        a = fn.args
        params = [x.arg for x in a.posonlyargs + a.args]
        fr.locals |= set(params) | {x.arg for x in a.kwonlyargs}
        for p_, v in zip(params, args):
            fr.env[p_] = v
            fr.defs.pop(p_, None)
        defaults = dict(zip(params[len(params) - len(a.defaults):], a.defaults))
        for p_ in params[len(args):] + [x.arg for x in a.kwonlyargs]:
            if p_ in kw:
                fr.env[p_] = kw[p_]
            elif p_ in defaults:
                fr.env[p_] = self.ev(defaults[p_], g)
            else:
                fr.env[p_] = Unk()
            fr.defs.pop(p_, None)
        self.frames.append(fr)
        self.stack.append(fn)
        try:
            if isinstance(fn, ast.Lambda):
                fr.returns.append(self.ev(fn.body, g))
            else:
                self.walk(fn.body, g)
        finally:
            self.stack.pop()
            self.frames.pop()
        return self.merge_avs(fr.returns) if fr.returns else Const(None)

    def merge_avs(self, vals):
        vals = [v for v in vals if v is not None]
        if not vals:
            return Unk()
        if all(v == vals[0] for v in vals[1:]):
            return vals[0]
        if all(isinstance(v, Tup) and len(v.items) == len(vals[0].items) for v in vals):
            return Tup([self.merge_avs([v.items[i] for v in vals]) for i in range(len(vals[0].items))])
        if all(isinstance(v, Bool) for v in vals):
            return Unk()
        return Unk(tracked=any(self.hot(v) for v in vals))

    # ---- binding -----------------------------------------------------------------------------------------------
    def store_attr(self, obj, attr, av, g, node):
        if obj.kind == 'card':
            self.attrs[attr] = av
            own = [c for c in g[0] if c.kind not in ('notCaught', 'tok')]
            self.attr_guard.setdefault(attr, []).append(own)
            return
        if obj.kind == 'parser':
            if self.statevar == 'self.' + attr:
                self.set_last(av, g, node)
                return
            if attr in FLAGS:
                v = not (isinstance(av, Const) and not av.v)
                self.emit((g[0], [], 0), f'.setFlag {lean_str(FLAGS[attr])} {"true" if v else "false"}')
                return
            if self.hot(av):
                self.attrs[attr] = av

    def set_last(self, av, g, node):
        if isinstance(av, Const) and isinstance(av.v, str):
            self.emit((g[0], [], 0), f'.setLast {lean_str(av.v)}')
        elif isinstance(av, Last):
            pass
        else:
            self.unknown_text('state variable set to a value that is not a constant: ' + ast.unparse(node)[:50], g)

    def unpack_hazard(self, av, n, star, g):
        """`a, b = <list>`: ValueError unless the length fits"""
        if isinstance(av, Toks):
            if av.k == 'p' and av.lo == 0 and av.hi is None and not star:
                self.emit(g, f'.unpackP {n}')
                return
            ok = len_formula(av.k, av.lo, av.hi, 0, 'Ge' if star else 'Eq', n)
            if ok is None:
                self.unknown_text('unpacking of a slice', g)
                return
            for alt in xdnf(f_not(ok)):
                self.emit(self.with_conds(g, alt), '.raise .ValueError')

    def bind(self, tgt, av, g, node):
        if isinstance(tgt, ast.Name):
            if self.statevar == tgt.id and self.ctx == 'parser':
                self.set_last(av, g, node)
                return
            self.fr.env[tgt.id] = av
            return
        if isinstance(tgt, ast.Attribute):
            obj = self.ev(tgt.value, g)
            if isinstance(obj, SelfV):
                self.store_attr(obj, tgt.attr, av, g, node)
            return
        if isinstance(tgt, ast.Subscript):
            base = self.ev(tgt.value, g)
            if not isinstance(tgt.slice, ast.Slice):
                self.ev(tgt.slice, g)
            if isinstance(base, Toks) and base.alias and base.k == 's':
                self.unknown(node, g)
            return
        if isinstance(tgt, (ast.Tuple, ast.List)):
            n = len(tgt.elts)
            star = next((i for i, e in enumerate(tgt.elts) if isinstance(e, ast.Starred)), None)
            if isinstance(av, Tup) and star is None and len(av.items) == n:
                for t, x in zip(tgt.elts, av.items):
                    self.bind(t, x, g, node)
                return
            if isinstance(av, Const) and star is None:
                try:
                    vs = list(av.v)
                    if len(vs) == n:
                        for t, x in zip(tgt.elts, vs):
                            self.bind(t, Const(x), g, node)
                        return
                except TypeError:
                    pass
            if isinstance(av, Toks):
                self.unpack_hazard(av, n - (1 if star is not None else 0), star is not None, g)
                for i, t in enumerate(tgt.elts):
                    if isinstance(t, ast.Starred):
                        self.bind(t.value, Toks(av.k, av.lo + i, None if i == n - 1 else None, alias=False) if i == n - 1 else Sub(av.k, av.lo), g, node)
                    elif not av.raw:
                        self.bind(t, Unk(), g, node)
                    elif star is None or i < star:
                        self.bind(t, Elem(av.k, av.lo + i), g, node)
                    else:
                        self.bind(t, Elem(av.k, None), g, node)
                return
            for t in tgt.elts:
                self.bind(t.value if isinstance(t, ast.Starred) else t, Unk(tracked=self.hot(av) and not isinstance(av, (Elem, LoopEl, TokVal))), g, node)
            return

    # ---- iteration ---------------------------------------------------------------------------------------------
    def iteration(self, it, g):
        """-> ('const', [values]) | ('zip', [('c', seq) | ('t', Toks)]) | ('toks', k, lo, hi) | ('enum', k, lo, hi) |
              ('idx', k, lo, hi) | ('other', av)"""
        if isinstance(it, ast.Call) and isinstance(it.func, ast.Name) and not self.shadowed(it.func.id) and it.func.id not in self.fr.env:
            fn = it.func.id
            if fn == 'enumerate' and it.args:
                inner = self.iteration(it.args[0], g)
                start = 0
                if len(it.args) > 1:
                    start = self.const_int(it.args[1])
                for k in it.keywords:
                    if k.arg == 'start':
                        start = self.const_int(k.value)
                if inner[0] == 'const' and start is not None:
                    return ('const', [(start + i, v) for i, v in enumerate(inner[1])])
                if inner[0] == 'toks':
                    return ('enum',) + inner[1:]
                if inner[0] == 'other' and isinstance(inner[1], ResList):
                    return ('enumres',)
                return ('other', Unk(tracked=inner[0] != 'other' or inner[1].tracked))
            if fn == 'zip' and it.args and not it.keywords:
                parts = [self.iteration(a, g) for a in it.args]
                if all(p[0] == 'const' for p in parts):
                    return ('const', list(zip(*[p[1] for p in parts])))
                if all(p[0] in ('const', 'toks') for p in parts) and any(p[0] == 'const' for p in parts):
                    return ('zip', parts)
                return ('other', Unk(tracked=any(p[0] != 'const' and (p[0] != 'other' or p[1].tracked) for p in parts)))
            if fn == 'range' and it.args and not it.keywords:
                avs = [self.ev(a, g) for a in it.args]
                if all(isinstance(a, Const) for a in avs):
                    try:
                        r = range(*[a.v for a in avs])
                        if len(r) <= MAX_UNROLL:
                            return ('const', list(r))
                    except (TypeError, ValueError):
                        pass
                    return ('other', Unk())
                stop = avs[0] if len(avs) == 1 else avs[1]
                start = Const(0) if len(avs) == 1 else avs[0]
                if len(avs) <= 2 and isinstance(stop, Len) and stop.lo == 0 and stop.hi is None and stop.add == 0 \
                        and isinstance(start, Const) and isinstance(start.v, int) and start.v >= 0:
                    return ('idx', stop.k, start.v, None)
                return ('other', Unk(tracked=any(a.tracked for a in avs)))
            if fn in ('reversed', 'sorted', 'list', 'tuple', 'iter') and len(it.args) == 1:
                inner = self.iteration(it.args[0], g)
                if inner[0] == 'const' and fn in ('list', 'tuple', 'iter'):
                    return inner
                if inner[0] == 'const':
                    try:
                        return ('const', list(reversed(inner[1])) if fn == 'reversed' else sorted(inner[1]))
                    except TypeError:
                        return ('other', Unk())
                if inner[0] == 'toks':
                    return inner if fn in ('list', 'tuple', 'iter') else ('toks', inner[1], inner[2], inner[3])
                return inner
        av = self.ev(it, g)
        if isinstance(av, Const):
            try:
                vals = list(av.v.items()) if False else list(av.v)
                if len(vals) <= MAX_UNROLL:
                    return ('const', vals)
            except TypeError:
                pass
            return ('other', Unk())
        if isinstance(av, Toks):
            return ('toks', av.k, av.lo, av.hi) if av.raw else ('other', Unk())
        if isinstance(av, Sub):
            return ('toks', av.k, av.lo, None) if av.k != 's' else ('sub', av.k, av.lo)
        if isinstance(av, Tup) and len(av.items) <= MAX_UNROLL:
            return ('tup', av.items)
        return ('other', av)

    def loop(self, target, it, body, orelse, g, comp=None):
        """for target in it: body   (comp: callable(g) for comprehensions instead of a statement body)"""
        spec = self.iteration(it, g)
        fr = self.fr

        def run(gg):
            if comp is not None:
                comp(gg)
                return dict(ret=F, brk=F, cnt=F)
            return self.walk(body, gg)
        ex = dict(ret=F, brk=F, cnt=F)
        if spec[0] in ('const', 'tup', 'zip'):
            if spec[0] == 'zip':
                n = min(len(p[1]) for p in spec[1] if p[0] == 'const')
                rows = []
                for i in range(n):
                    row, guard = [], []
                    for p in spec[1]:
                        if p[0] == 'const':
                            row.append(Const(p[1][i]))
                        else:
                            k, lo, hi = p[1:]
                            fo = len_formula(k, lo, hi, 0, 'Gt', i)
                            if fo is None:
                                fo = f_atom(Cond('opaque', 'zip'))
                            guard.append(fo)
                            row.append(Elem(k, lo + i) if hi is None or lo + i < hi else Unk())
                    fg = T
                    for x in guard:
                        fg = f_and(fg, x)
                    rows.append((Tup(row), fg))
            elif spec[0] == 'const':
                rows = [(Const(v), T) for v in spec[1]]
            else:
                rows = [(v, T) for v in spec[1]]
            fr.loopdepth += 1
            fr.unrolled.append(True)
            alive = T           # no break / return so far
            for val, fg in rows:
                cond = f_and(alive, fg)
                stop_here = F
                for alt in xdnf(cond):
                    gg = self.with_conds(g, alt)
                    self.bind(target, val, gg, target)
                    e = run(gg)
                    af = T
                    for c in alt:
                        af = f_and(af, f_atom(c))
                    ex['ret'] = f_or(ex['ret'], f_and(af, e['ret']))
                    stop_here = f_or(stop_here, f_and(af, f_or(e['ret'], e['brk'])))
                alive = f_and(alive, f_not(stop_here))
                if spec[0] == 'zip':
                    alive = f_and(alive, fg)
            fr.unrolled.pop()
            fr.loopdepth -= 1
        else:
            self.nloop += 1
            lid = self.nloop
            if spec[0] == 'toks':
                self.bind(target, LoopEl(spec[1], spec[2], spec[3], lid), g, target)
            elif spec[0] == 'sub':
                self.bind(target, Unk(tracked=True), g, target)
            elif spec[0] == 'enum':
                if isinstance(target, (ast.Tuple, ast.List)) and len(target.elts) == 2:
                    self.bind(target.elts[0], Unk(), g, target)
                    self.bind(target.elts[1], LoopEl(spec[1], spec[2], spec[3], lid), g, target)
                else:
                    self.bind(target, Unk(tracked=True), g, target)
            elif spec[0] == 'idx':
                self.bind(target, LoopIdx(spec[1], spec[2], spec[3], lid), g, target)
            elif spec[0] == 'enumres':
                if isinstance(target, (ast.Tuple, ast.List)) and len(target.elts) == 2:
                    self.bind(target.elts[0], Unk(), g, target)
                    self.bind(target.elts[1], Line(), g, target)
                else:
                    self.bind(target, Unk(), g, target)
            else:
                av = spec[1]
                if isinstance(av, ResList):
                    self.bind(target, Line(), g, target)
                else:
                    self.bind(target, Unk(tracked=self.hot(av) and not isinstance(av, (Elem, LoopEl, TokVal, Join))), g, target)
            fr.loopdepth += 1
            fr.unrolled.append(False)
            e = run(g)
            fr.unrolled.pop()
            fr.loopdepth -= 1
            if e['ret'] != F:
                ex['ret'] = f_atom(Cond('opaque', f'loop-left-early:{getattr(it, "lineno", 0)}'))
        if orelse:
            e = self.walk(orelse, g)
            ex['ret'] = f_or(ex['ret'], e['ret'])
        return ex

    def comprehension(self, node, g):
        gens = node.generators

        def level(i, gg):
            if i == len(gens):
                if isinstance(node, ast.DictComp):
                    self.ev(node.key, gg)
                    self.ev(node.value, gg)
                else:
                    self.ev(node.elt, gg)
                return
            gen = gens[i]

            def body(g3):
                f = T
                for c in gen.ifs:
                    alts = xdnf(f)
                    fv = None
                    for alt in alts:
                        r = self.test(c, self.with_conds(g3, alt))
                        fv = r if fv is None else fv
                    if fv is None:
                        fv = F
                    f = f_and(f, fv)
                for alt in xdnf(f):
                    level(i + 1, self.with_conds(g3, alt))
            self.loop(gen.target, gen.iter, None, None, gg, comp=body)
        saved = dict(self.fr.env)
        level(0, g)
        # what the comprehension yields: a list as long as the token slice it runs over (so that indexing it is still read)
        res = Unk()
        if len(gens) == 1 and not isinstance(node, ast.DictComp):
            self.muted += 1
            sp = self.iteration(gens[0].iter, g)
            self.muted -= 1
            if sp[0] == 'toks':
                if gens[0].ifs or isinstance(node, ast.SetComp):
                    res = Sub(sp[1], sp[2])
                else:
                    ident = isinstance(node.elt, ast.Name) and isinstance(gens[0].target, ast.Name) and node.elt.id == gens[0].target.id
                    if isinstance(node, ast.ListComp):
                        res = Toks(sp[1], sp[2], sp[3], alias=False, raw=ident)
                    else:
                        res = Sub(sp[1], sp[2]) if ident else Unk()
            elif sp[0] in ('enum', 'idx', 'sub', 'zip'):
                res = Unk(tracked=True)
            elif sp[0] == 'other' and self.hot(sp[1]) and not isinstance(sp[1], (Elem, LoopEl, TokVal, Join)):
                res = Unk(tracked=True)
        elif len(gens) > 1:
            self.muted += 1
            tr = False
            for gen in gens:
                sp = self.iteration(gen.iter, g)
                tr = tr or sp[0] in ('toks', 'enum', 'idx', 'sub', 'zip') or (sp[0] == 'other' and self.hot(sp[1]))
            self.muted -= 1
            res = Unk(tracked=tr)
        self.fr.env = saved
        return res

    def ev_ListComp(self, node, g):
        return self.comprehension(node, g)

    ev_GeneratorExp = ev_SetComp = ev_DictComp = ev_ListComp

    # ---- statements --------------------------------------------------------------------------------------------
    def snapshot(self):
        return dict(self.fr.env), dict(self.attrs)

    def restore(self, snap):
        self.fr.env = dict(snap[0])
        self.attrs = dict(snap[1])

    def merge_states(self, base, states):
        """after the arms of an `if`: a name that the arms leave with different values is unknown from here on"""
        if not states:
            self.restore(base)
            return
        for idx, attr in ((0, 'env'), (1, 'attrs')):
            keys = set()
            for s in states:
                keys |= set(s[idx])
            out = {}
            for k in keys:
                vals = [s[idx][k] for s in states if k in s[idx]]
                out[k] = vals[0] if all(v == vals[0] for v in vals[1:]) else Unk(tracked=any(self.hot(v) for v in vals))
            if idx == 0:
                self.fr.env = out
            else:
                self.attrs = out

    def walk(self, stmts, g):
        ex = dict(ret=F, brk=F, cnt=F)
        for i, st in enumerate(stmts):
            e = self.stmt(st, g)
            tot = f_or(f_or(e['ret'], e['brk']), e['cnt'])
            if tot == F:
                continue
            out = dict(e)
            base = self.snapshot()
            states = []
            for alt in xdnf(f_not(tot)):
                self.restore(base)
                e2 = self.walk(stmts[i + 1:], self.with_conds(g, alt))
                states.append(self.snapshot())
                af = T
                for c in alt:
                    af = f_and(af, f_atom(c))
                for k in out:
                    out[k] = f_or(out[k], f_and(af, e2[k]))
            self.merge_states(base, states)
            return out
        return ex

    def stmt(self, st, g):
        m = getattr(self, 'st_' + type(st).__name__, None)
        none = dict(ret=F, brk=F, cnt=F)
        if m is None:
            if any(isinstance(n, ast.Name) and self.hot(self.fr.env.get(n.id, Unk())) for n in ast.walk(st)):
                self.unknown(st, g)
            return none
        r = m(st, g)
        return r if r is not None else none

    def st_Pass(self, st, g):
        return None

    st_Global = st_Nonlocal = st_Import = st_ImportFrom = st_Pass

    def st_FunctionDef(self, st, g):
        self.fr.env[st.name] = LocalFn(st)

    def st_ClassDef(self, st, g):
        self.fr.env[st.name] = Unk()

    def st_Expr(self, st, g):
        self.ev(st.value, g)

    def st_Assert(self, st, g):
        self.test(st.test, g)

    def st_Delete(self, st, g):
        for t in st.targets:
            if isinstance(t, ast.Subscript):
                base = self.ev(t.value, g)
                if isinstance(base, Toks) and base.alias:
                    self.unknown(st, g)

    def st_Assign(self, st, g):
        av = self.ev(st.value, g)
        d = None
        if len(st.targets) == 1 and isinstance(st.targets[0], ast.Name):
            e = self.subst(st.value)
            if assume.whitelisted(e) and len(ast.unparse(e)) < 200:
                d = e
        for t in st.targets:
            self.bind(t, av, g, st)
            if isinstance(t, ast.Name):
                if d is not None:
                    self.fr.defs[t.id] = d
                else:
                    self.fr.defs.pop(t.id, None)

    def st_AnnAssign(self, st, g):
        if st.value is not None:
            av = self.ev(st.value, g)
            self.bind(st.target, av, g, st)

    def st_AugAssign(self, st, g):
        av = self.ev(st.value, g)
        if isinstance(st.target, ast.Name):
            cur = self.fr.env.get(st.target.id)
            if isinstance(cur, Toks) and cur.alias and cur.k == 's':
                self.unknown(st, g)
            if isinstance(cur, (Line,)):
                return
            if self.statevar == st.target.id and self.ctx == 'parser':
                self.unknown(st, g)
                return
            self.fr.env[st.target.id] = Unk(tracked=(cur is not None and self.hot(cur)) or self.hot(av))
        elif isinstance(st.target, ast.Attribute):
            obj = self.ev(st.target.value, g)
            if isinstance(obj, SelfV) and obj.kind == 'card':
                self.getattr(obj, st.target.attr, st.target, g)
                self.attrs.pop(st.target.attr, None)
        elif isinstance(st.target, ast.Subscript):
            self.ev(st.target, g)

    def st_Return(self, st, g):
        av = self.ev(st.value, g) if st.value is not None else Const(None)
        self.fr.returns.append(av)
        if self.fr.top:
            if self.ctx == 'card':
                self.emit((g[0], [], 0), '.stop')
            else:
                self.unknown_text('return inside the loop of _parse_cards', g)
        return dict(ret=T, brk=F, cnt=F)

    def st_Continue(self, st, g):
        if self.fr.loopdepth == 0:
            if self.fr.top and self.ctx == 'parser':
                self.emit((g[0], [], 0), '.stop')
            return dict(ret=F, brk=F, cnt=F)
        if self.fr.unrolled and self.fr.unrolled[-1]:
            return dict(ret=F, brk=F, cnt=T)
        return None

    def st_Break(self, st, g):
        if self.fr.loopdepth and self.fr.unrolled and self.fr.unrolled[-1]:
            return dict(ret=F, brk=T, cnt=F)
        return None

    def st_Raise(self, st, g):
        if st.exc is None:
            self.emit(g, f'.raise {self._caught_class}')
            return None
        n0 = len(self.steps)
        name = None
        exc = st.exc
        target = exc.func if isinstance(exc, ast.Call) else exc
        if isinstance(exc, ast.Call):
            self.args_of(exc, g)
        av = self.ev(target, g)
        if isinstance(av, Const) and isinstance(av.v, ClassRef):
            name = self.exc_family(av.v)
        elif isinstance(target, ast.Name):
            name = target.id if isinstance(av, (Builtin, Unk)) else None
        elif isinstance(target, ast.Attribute):
            name = target.attr
        for s in self.steps[n0:]:
            if s[3].startswith('.raise') and [c.key() for c in s[0]] == [c.key() for c in g[0] if c.kind != 'tok'] and not s[1]:
                return None       # evaluating the exception already raises (undefined name …)
        if st.cause is not None:
            self.ev(st.cause, g)
        self.emit(g, f'.raise {err_of(name or "?")}')
        return None       # (the step ends the handler when it is reached: what follows needs no guard)

    def exc_family(self, ref):
        for r in self.prog.mro(ref):
            if r.name in PLAIN_ERRS or r.name.startswith('Parse'):
                return r.name
        c = self.prog.cls(ref)
        for b in (c.bases if c else []):
            if isinstance(b, ast.Name) and b.id in PLAIN_ERRS:
                return b.id
        return ref.name

    def handler_classes(self, h):
        t = h.type
        everything = sorted('.' + c for c in list(PLAIN_ERRS) + ['ParseError', 'Other'])
        if t is None:
            return everything
        names = [t] if not isinstance(t, ast.Tuple) else list(t.elts)
        out = []
        for n in names:
            nm = None
            if isinstance(n, ast.Name):
                av = self.fr.env.get(n.id)
                nm = n.id
                if av is None and n.id not in self.fr.locals:
                    try:
                        v = self.fr.mod.value(n.id)
                        if isinstance(v, ClassRef):
                            nm = self.exc_family(v)
                        elif isinstance(v, (tuple, list)):
                            for x in v:
                                out.append(err_of(self.exc_family(x) if isinstance(x, ClassRef) else '?')[1:])
                            continue
                    except NotConst:
                        pass
            elif isinstance(n, ast.Attribute):
                nm = n.attr
            if nm is None:
                out.append('Other')
            elif nm in ERR_GROUPS:
                if ERR_GROUPS[nm] is None:
                    return everything
                out.extend(ERR_GROUPS[nm])
            else:
                out.append(err_of(nm)[1:])
        return sorted(set('.' + c for c in out))

    def st_Try(self, st, g):
        conds, catch, tid = g
        self.ntry += 1
        k = self.ntry
        cl = sorted(set(c for h in st.handlers for c in self.handler_classes(h)))
        ex = dict(ret=F, brk=F, cnt=F)

        def acc(e):
            for key in ex:
                ex[key] = f_or(ex[key], e[key])
        body_g = (conds + [Cond('notCaught', k)], cl, k) if st.handlers else g
        acc(self.walk(st.body, body_g))
        for h in st.handlers:
            hc = self.handler_classes(h)
            saved = self._caught_class
            self._caught_class = hc[0] if hc else '.Other'
            if h.name:
                self.fr.env[h.name] = Unk()
            acc(self.walk(h.body, (conds + [Cond('caught', k, hc)], catch, tid)))
            self._caught_class = saved
        if st.orelse:
            acc(self.walk(st.orelse, (conds + [Cond('notCaught', k)], catch, tid) if st.handlers else g))
        if st.finalbody:
            acc(self.walk(st.finalbody, g))
        # whether the body was left early depends on the exception state: keep only what is certain
        if ex['ret'] != T:
            ex['ret'] = F if ex['ret'] == F else f_atom(Cond('opaque', f'try-left-early:{st.lineno}'))
        ex['brk'] = ex['cnt'] = F
        return ex

    st_TryStar = st_Try

    def st_With(self, st, g):
        sup = None
        for item in st.items:
            ce = item.context_expr
            if isinstance(ce, ast.Call) and ((isinstance(ce.func, ast.Name) and ce.func.id == 'suppress') or
                                             (isinstance(ce.func, ast.Attribute) and ce.func.attr == 'suppress')):
                sup = ce
            else:
                av = self.ev(ce, g)
                if item.optional_vars is not None:
                    self.bind(item.optional_vars, Unk(tracked=self.hot(av)), g, st)
        if sup is not None:
            fake = ast.Try(body=st.body, handlers=[ast.ExceptHandler(type=ast.Tuple(elts=list(sup.args), ctx=ast.Load()), name=None,
                                                                     body=[ast.Pass()])], orelse=[], finalbody=[])
            ast.copy_location(fake, st)
            return self.st_Try(fake, g)
        return self.walk(st.body, g)

    def st_For(self, st, g):
        return self.loop(st.target, st.iter, st.body, st.orelse, g)

    def st_While(self, st, g):
        self.test(st.test, g)
        fr = self.fr
        fr.loopdepth += 1
        fr.unrolled.append(False)
        before = self.snapshot()
        e = self.walk(st.body, g)
        after = self.snapshot()
        self.merge_states(before, [before, after])
        fr.unrolled.pop()
        fr.loopdepth -= 1
        ex = dict(ret=F, brk=F, cnt=F)
        if e['ret'] != F:
            ex['ret'] = f_atom(Cond('opaque', f'loop-left-early:{st.lineno}'))
        if st.orelse:
            self.walk(st.orelse, g)
        return ex

    def st_If(self, st, g):
        f = self.test(st.test, g)
        base = self.snapshot()
        states = []
        ex = dict(ret=F, brk=F, cnt=F)

        def arm(body, alts):
            for alt in alts:
                self.restore(base)
                e = self.walk(body, self.with_conds(g, alt)) if body else dict(ret=F, brk=F, cnt=F)
                states.append(self.snapshot())
                af = T
                for c in alt:
                    af = f_and(af, f_atom(c))
                for k in ex:
                    ex[k] = f_or(ex[k], f_and(af, e[k]))
        arm(st.body, xdnf(f))
        arm(st.orelse, xdnf(f_not(f)))
        self.merge_states(base, states)
        return ex

    def st_Match(self, st, g):
        subj = self.ev(st.subject, g)
        if isinstance(subj, Word) and self.cur_key is not None:
            for case in st.cases:
                keys = self.match_keys(case.pattern)
                if keys is False:
                    self.unknown(st, g)
                    return None
                hit = True if keys is None else self.kw_truth(KwTest([('word', k) for k in keys])) == T
                if not hit:
                    continue
                if case.guard is not None:
                    f = self.test(case.guard, g)
                    if f == F:
                        continue
                    if f != T:
                        self.unknown_text('case of the keyword with a guard', g)
                        return None
                return self.walk(case.body, g)
            return None
        if not isinstance(subj, Const):
            if self.hot(subj) or isinstance(subj, (Word, Last)):
                self.unknown(st, g)
            return None
        for case in st.cases:
            hit = self.match_const(case.pattern, subj.v)
            if hit is None:
                self.unknown(st, g)
                return None
            if hit and case.guard is None:
                return self.walk(case.body, g)
            if hit:
                self.unknown(st, g)
                return None
        return None

    def match_keys(self, pat):
        """keywords of a case pattern: list, None for the wildcard, False if not understood"""
        if isinstance(pat, ast.MatchValue):
            try:
                v = self.ceval(pat.value)
            except NotConst:
                return False
            return [v] if isinstance(v, str) else False
        if isinstance(pat, ast.MatchOr):
            out = []
            for q in pat.patterns:
                k = self.match_keys(q)
                if not k:
                    return False
                out += k
            return out
        if isinstance(pat, ast.MatchAs) and pat.pattern is None:
            return None
        return False

    def match_const(self, pat, v):
        if isinstance(pat, ast.MatchValue):
            try:
                return self.ceval(pat.value) == v
            except NotConst:
                return None
        if isinstance(pat, ast.MatchSingleton):
            return pat.value is v
        if isinstance(pat, ast.MatchOr):
            rs = [self.match_const(p, v) for p in pat.patterns]
            return None if any(r is None for r in rs) else any(rs)
        if isinstance(pat, ast.MatchAs) and pat.pattern is None:
            return True
        return None

"""
C15 — tracing targets: what `Atoms.torsion_angle`, `Atoms.angle`, `Atoms.distance`, `Atom.cart_coords` and
`Atom.find_atoms_around` of the working tree compute, read off by running them (through the public API, on a file read
with `Shelxfile.read_string`) on symbolic numbers (symtrace.py).

Inputs of the emitted definitions:
  * `p1x … p4z` — the Cartesian coordinates the four atoms carry (`Atom.cart_coords`); the traced results of
    `torsion_angle` / `angle` / `distance` must be functions of these alone (anything else is reported as lost);
  * `a b c ca cb cg sb sg` — the cell (angles enter only as cos/sin of their radians), `v` — the one square root the
    orthogonalisation matrix takes (its radicand is emitted separately as `volRadicand`; the cell volume is `a b c` times
    it), `x y z` fractional coordinates.

Comparisons of symbolic numbers are branch events. symtrace records their text only; here the *expressions* compared
are needed (the polynomial whose sign decides the sign of the torsion angle, the distance that is compared with the
search radius), so `Capture` wraps `Sym._cmp` for the duration of one call and keeps (left node, operator, right
node, outcome, sample value). A path condition is then evaluated semantically: for a comparison chain on one
expression `X` against constants, the set of REGIONS of the real line (below / at / between / above the constants) on
which every recorded comparison has the recorded outcome. `X > 0`, `0 < X`, `not X <= 0` all give the region set
{above 0}; `X >= 0` gives {at 0, above 0}. The region sets are emitted as bit masks and checked by `decide` in
ShelxProps/C15.lean against the model's `if 0 < direction`.
"""
import re

import symtrace as st
from trace_run import target

P12 = [f'p{k}{c}' for k in (1, 2, 3, 4) for c in 'xyz']
CELL6 = ['a', 'b', 'c', 'ca', 'cb', 'cg']

HEAD = """TITL traced
CELL 0.71073 10.5101 11.5202 12.5303 81.04 82.05 83.06
ZERR 4 0.001 0.001 0.001 0.01 0.01 0.01
LATT -1
SFAC C H O
UNIT 4 4 4
FVAR 1.0
"""
CELL_LIT = dict(a='10.5101', b='11.5202', c='12.5303', alpha='81.04', beta='82.05', gamma='83.06')
# four atoms in general position; the second set differs in the last atom only and has the opposite sense of rotation
FRAC = {
    'pos': [('0.210311', '0.120422', '0.050533'), ('0.250644', '0.230755', '0.110866'),
            ('0.370977', '0.260188', '0.170299'), ('0.400311', '0.390422', '0.150533')],
    'neg': [('0.210311', '0.120422', '0.050533'), ('0.250644', '0.230755', '0.110866'),
            ('0.370977', '0.260188', '0.170299'), ('0.480311', '0.180422', '0.290533')],
}
# the parser looks at the magnitude of each number to tell free-variable codes from plain values (cf. trace_c12.py)
PARSE_ONLY = ('> 4', '>= 4', '< 4', '> 15', '> -', '< -', 'abs(', '> 1e-06', '> 1e-05', '> 0', '< 0', '== 0', 'bool(',
              '> 5', '< 5', '> 10', '< 10', '>= 5', '>= 10', '>= 15', '== 10', '== 11', '> 0.5', '< 0.5')
# what trace_run.py is told to tolerate: the parser's events (checked against PARSE_ONLY in `read`) and the comparisons of
# the traced calls themselves, which `Capture` records with their expressions and the targets below check one by one
PARSE_EVENTS = PARSE_ONLY + ('< 1', '> 1', '<= 1', '>= 1', '<= 0', '>= 0', '< dist', '<= dist', '> dist', '>= dist',
                             'dist <', 'dist >')


def brief(text, n=160):
    return text if len(text) <= n else text[:n // 2] + ' … ' + text[-n // 2:]


def cmp_text(left, op, right):
    return brief(f'{st.show(left)} {op} {st.show(right)}')


def file_text(fracs, extra=''):
    lines = [HEAD.rstrip('\n')]
    for k, f in enumerate(fracs):
        lines.append(f'C{k + 1}    1    {f[0]}    {f[1]}    {f[2]}    11.00000    0.04')
    return '\n'.join(lines) + '\n' + extra + 'HKLF 4\nEND\n'


def read(t, which='pos', fracs=None):
    """-> shx, the atoms C1.. in file order; cell and fractional coordinates are named inputs"""
    from shelxfile import Shelxfile
    for n, lit in CELL_LIT.items():
        v = t.literal(lit, n)
        if n in ('alpha', 'beta', 'gamma'):
            c, s = dict(alpha=('ca', 'sa'), beta=('cb', 'sb'), gamma=('cg', 'sg'))[n]
            rad = st.mk('call', 'radians', v.node)
            t.table[st.mk('call', 'cos', rad)] = st.mk('var', c)
            t.table[st.mk('call', 'sin', rad)] = st.mk('var', s)
    fracs = fracs or FRAC[which]
    for k, f in enumerate(fracs):
        for c, lit in zip('xyz', f):
            t.literal(lit, f'f{k + 1}{c}')
    shx = Shelxfile()
    i0 = len(st.EVENTS)
    shx.read_string(file_text(fracs))
    odd = [e for e in st.EVENTS[i0:] if not any(x in e[1] for x in PARSE_ONLY)]
    if odd:
        raise st.Untraceable('reading the traced file branches on ' + '; '.join(brief(e[1]) for e in odd[:3]))
    atoms = list(shx.atoms)
    if [a.name for a in atoms] != [f'C{k + 1}' for k in range(len(fracs))]:
        raise st.Untraceable(f'the traced file was parsed to the atoms {[a.name for a in atoms]}')
    return shx, atoms


def name_carts(t, atoms):
    """the Cartesian coordinates the atoms carry become the inputs p1x … of the emitted definition"""
    for k, a in enumerate(atoms):
        cc = list(a.cart_coords)
        if len(cc) != 3 or not all(isinstance(v, st.Sym) for v in cc):
            raise st.Untraceable('Atom.cart_coords is not three traced numbers')
        for c, v in zip('xyz', cc):
            if v.node in t.table and t.table[v.node] != st.mk('var', f'p{k + 1}{c}'):
                raise st.Untraceable('two Cartesian coordinates are the same expression')
            t.table[v.node] = st.mk('var', f'p{k + 1}{c}')


class Capture:
    """records the comparisons of symbolic numbers made inside the `with` block, with their expressions"""

    def __enter__(self):
        self.i0 = len(st.EVENTS)
        self.cmps = []
        self._orig = st.Sym._cmp
        orig, cmps = self._orig, self.cmps

        def _cmp(s, o, op, fn):
            r = orig(s, o, op, fn)
            if r is not NotImplemented:
                cmps.append((s.node, op, st.lift(o), bool(r), float.__float__(s)))
            return r
        st.Sym._cmp = _cmp
        return self

    def __exit__(self, *exc):
        st.Sym._cmp = self._orig
        ev = st.EVENTS[self.i0:]
        self.other = [e for e in ev if e[0] != 'cmp']
        self.ncmp = len([e for e in ev if e[0] == 'cmp'])
        return False

    def check(self):
        if self.other:
            raise st.Untraceable('truth value / int() of a symbolic number: ' + '; '.join(brief(e[1]) for e in self.other[:3]))
        if self.ncmp != len(self.cmps):
            raise st.Untraceable('comparison events were not all captured')


def const_of(node):
    """a numeric constant node -> Fraction, else None"""
    from fractions import Fraction
    if node[0] == 'int':
        return Fraction(node[1])
    if node[0] == 'dec':
        return Fraction(node[1])
    if node[0] == 'neg':
        c = const_of(node[1])
        return None if c is None else -c
    return None


OPS = {'<': lambda x, y: x < y, '<=': lambda x, y: x <= y, '>': lambda x, y: x > y, '>=': lambda x, y: x >= y,
       '==': lambda x, y: x == y}


def regions(events, consts):
    """events: [(op, constant, outcome)] on one expression X; consts: the sorted constants c1 < c2 < … the target allows.
    -> bit mask over the regions X<c1, X=c1, c1<X<c2, X=c2, …, X>cn (bit 0 = lowest region) on which all events have
    the recorded outcome"""
    from fractions import Fraction
    pts = []
    for i, c in enumerate(consts):
        pts.append(c - 1 if i == 0 else (consts[i - 1] + c) / 2)
        pts.append(c)
    pts.append(consts[-1] + 1)
    mask = 0
    for bit, x in enumerate(pts):
        if all(OPS[op](Fraction(x), c) == out for op, c, out in events):
            mask |= 1 << bit
    return mask


def subnodes(n, seen=None):
    seen = {} if seen is None else seen
    if id(n) in seen:
        return seen
    seen[id(n)] = n
    for k in (n[2:] if n[0] == 'call' else n[1:] if n[0] in ('add', 'sub', 'mul', 'div', 'neg') else ()):
        subnodes(k, seen)
    return seen


def calls_of(n, name):
    return [m for m in subnodes(n).values() if m[0] == 'call' and m[1] == name]


def sym(node):
    return st.Sym(node, 0.0)


# ---- torsion angle -----------------------------------------------------------------------------------------------

def torsion(t, which):
    """-> dict(result, dir node, sign mask, cos mask)"""
    shx, atoms = read(t, which)
    name_carts(t, atoms)
    with Capture() as cap:
        r = shx.atoms.torsion_angle(*atoms)
    cap.check()
    if not isinstance(r, st.Sym):
        raise st.Untraceable('torsion_angle did not return a traced number')
    ac = calls_of(r.node, 'acos')
    if len(ac) != 1:
        raise st.Untraceable(f'the result of torsion_angle contains {len(ac)} acos calls')
    cosnode = ac[0][2]
    sign_ev, cos_ev, dnode, dval = [], [], None, None
    for left, op, right, out, val in cap.cmps:
        c = const_of(right)
        if c is None or op not in OPS:
            raise st.Untraceable('torsion_angle compares ' + cmp_text(left, op, right))
        if left is cosnode and c in (-1, 1):
            cos_ev.append((op, c, out))
        elif c == 0 and (dnode is None or left is dnode):
            dnode, dval = left, val
            sign_ev.append((op, c, out))
        else:
            raise st.Untraceable('torsion_angle branches on ' + cmp_text(left, op, right))
    if dnode is None:
        raise st.Untraceable('torsion_angle compares nothing with 0: no expression decides the sign of the result')
    if (dval > 0) != (which == 'pos'):
        raise st.Untraceable(f'sample {which}: the expression compared with 0 has the value {dval}')
    from fractions import Fraction
    return dict(result=r, dir=dnode, sign=regions(sign_ev, [Fraction(0)]),
                cos=regions(cos_ev, [Fraction(-1), Fraction(1)]) if cos_ev else 0b11111)


@target('C15', 'torsionDir', P12, doc='the expression whose comparison with 0 decides the sign of Atoms.torsion_angle(at1, at2, at3, at4), '
        'in the Cartesian coordinates of the four atoms', expect=PARSE_EVENTS)
def torsion_dir(t):
    return sym(torsion(t, 'pos')['dir'])


@target('C15', 'torsionPos', P12, doc='Atoms.torsion_angle on the path taken by four atoms whose sign expression is positive',
        calls=['acos', 'degrees', 'sqrt'], expect=PARSE_EVENTS)
def torsion_pos(t):
    return torsion(t, 'pos')['result']


@target('C15', 'torsionNeg', P12, doc='Atoms.torsion_angle on the path taken by four atoms whose sign expression is negative',
        calls=['acos', 'degrees', 'sqrt'], expect=PARSE_EVENTS)
def torsion_neg(t):
    return torsion(t, 'neg')['result']


@target('C15', 'torsionDirNeg', P12, doc='the expression compared with 0 on the negative path (must be the same polynomial)',
        expect=PARSE_EVENTS)
def torsion_dir_neg(t):
    return sym(torsion(t, 'neg')['dir'])


@target('C15', 'torsionPaths', [], doc='path conditions of the two traced paths as region masks: [sign expression on the positive path, '
        'on the negative path (bit 0: < 0, bit 1: = 0, bit 2: > 0); acos argument on the positive path, on the negative path '
        '(bit 0: < -1, 1: = -1, 2: between, 3: = 1, 4: > 1)]', result_len=4, expect=PARSE_EVENTS)
def torsion_paths(t):
    a = torsion(t, 'pos')
    b = torsion(t, 'neg')
    return [a['sign'], b['sign'], a['cos'], b['cos']]


# ---- angle, named distance ---------------------------------------------------------------------------------------

@target('C15', 'angle', P12[:9], doc='Atoms.angle(at1, at2, at3)', calls=['acos', 'degrees', 'round9', 'sqrt'], expect=PARSE_EVENTS)
def angle(t):
    shx, atoms = read(t)
    name_carts(t, atoms)
    with Capture() as cap:
        r = shx.atoms.angle(*atoms[:3])
    cap.check()
    if cap.cmps:
        raise st.Untraceable('Atoms.angle branches on ' + '; '.join(cmp_text(l, op, rr) for l, op, rr, _, _ in cap.cmps[:3]))
    return r


@target('C15', 'namedDistance', P12[:3] + P12[9:], doc="Atoms.distance('C1', 'C4')", calls=['sqrt'], expect=PARSE_EVENTS)
def named_distance(t):
    shx, atoms = read(t)
    name_carts(t, atoms)
    with Capture() as cap:
        r = shx.atoms.distance('C1', 'C4')
    cap.check()
    if cap.cmps:
        raise st.Untraceable('Atoms.distance branches on ' + '; '.join(cmp_text(l, op, rr) for l, op, rr, _, _ in cap.cmps[:3]))
    return r


# ---- Cartesian coordinates ---------------------------------------------------------------------------------------

def name_volume(t, nodes, bind=True):
    """the one square root in the orthogonalisation matrix is the cell volume: input `v`; -> its radicand"""
    sq = {id(m): m for n in nodes for m in calls_of(n, 'sqrt')}
    if len(sq) != 1:
        raise st.Untraceable(f'the Cartesian coordinates of a parsed atom contain {len(sq)} different square roots')
    node = list(sq.values())[0]
    if bind:
        t.table[node] = st.mk('var', 'v')
    return node[2]


CARTP = CELL6 + ['sg', 'v', 'x', 'y', 'z']


def rename_frac(t, k):
    for c in 'xyz':
        t.table[st.mk('var', f'f{k}{c}')] = st.mk('var', c)


@target('C15', 'atomCart', CARTP, doc='Atom.cart_coords of an atom parsed from the file text (v: the square root in the matrix)',
        result_len=3, expect=PARSE_EVENTS)
def atom_cart(t):
    shx, atoms = read(t)
    cc = [v for v in atoms[1].cart_coords]
    name_volume(t, [v.node for v in cc])
    rename_frac(t, 2)
    return cc


@target('C15', 'volRadicand', CELL6, doc='the radicand of the square root `v` in the Cartesian coordinates of a parsed atom',
        expect=PARSE_EVENTS)
def vol_radicand(t):
    shx, atoms = read(t)
    return sym(name_volume(t, [v.node for v in atoms[1].cart_coords], bind=False))


@target('C15', 'movedCart', CARTP, doc='Atom.cart_coords after `atom.frac_coords = [x, y, z]`', result_len=3, expect=PARSE_EVENTS)
def moved_cart(t):
    shx, atoms = read(t)
    xyz = [t.var(c, s) for c, s in zip('xyz', (0.3141, 0.2718, 0.1618))]
    with Capture() as cap:
        atoms[2].frac_coords = xyz
        cc = [v for v in atoms[2].cart_coords]
    cap.check()
    if cap.cmps:
        raise st.Untraceable('the frac_coords setter branches on a coordinate')
    name_volume(t, [v.node for v in cc])
    return cc


@target('C15', 'addedCart', CELL6 + ['sb', 'sg', 'x', 'y', 'z'], doc="Atom.cart_coords of an atom made by Shelxfile.add_atom('C9', [x, y, z], 'C', six U values)",
        result_len=3, calls=['sqrt'], expect=PARSE_EVENTS)
def added_cart(t):
    shx, atoms = read(t)
    xyz = [t.var(c, s) for c, s in zip('xyz', (0.3141, 0.2718, 0.1618))]
    with Capture() as cap:
        shx.add_atom('C9', xyz, 'C', [0.04, 0.0, 0.0, 0.0, 0.0, 0.0])
        new = [a for a in shx.atoms if a.name == 'C9']
        if len(new) != 1:
            raise st.Untraceable('add_atom did not add one atom C9')
        cc = [v for v in new[0].cart_coords]
    cap.check()
    if cap.cmps:
        raise st.Untraceable('add_atom branches on a coordinate')
    return cc


# ---- neighbour search --------------------------------------------------------------------------------------------

@target('C15', 'aroundDist', CELL6 + ['x1', 'y1', 'z1', 'x2', 'y2', 'z2'], doc='the number Atom.find_atoms_around(dist, 0) of atom 1 compares with '
        '`dist` for atom 2 (fractional coordinates, cell)', calls=['sqrt'], expect=PARSE_EVENTS)
def around_dist(t):
    return sym(around(t)['node'])


@target('C15', 'aroundPaths', [], doc='the comparison of that number with dist as region masks (bit 0: < dist, 1: = dist, 2: > dist): '
        '[for an atom that is returned, for an atom that is not]', result_len=2, expect=PARSE_EVENTS)
def around_paths(t):
    r = around(t)
    return [r['in'], r['out']]


def around(t):
    """atom 1 searches with a radius between its distances to atom 2 (inside) and atom 3 (outside)"""
    from fractions import Fraction
    shx, atoms = read(t, fracs=FRAC['pos'][:3])
    for k in (1, 2):
        for c in 'xyz':
            t.table[st.mk('var', f'f{k}{c}')] = st.mk('var', f'{c}{k}')
    dist = t.var('dist', 2.0)
    with Capture() as cap:
        found = atoms[0].find_atoms_around(dist, 0)
    cap.check()
    if [a.name for a in found] != ['C2']:
        raise st.Untraceable(f'find_atoms_around(2.0) of the traced file returns {[a.name for a in found]}')
    per = {}
    flip = {'<': '>', '<=': '>=', '>': '<', '>=': '<=', '==': '=='}
    for left, op, right, out, val in cap.cmps:
        if left is dist.node and op in flip:            # `dist > d` is `d < dist`
            left, op, right = right, flip[op], left
        if right is not dist.node or op not in OPS:
            raise st.Untraceable('find_atoms_around compares ' + cmp_text(left, op, right))
        per.setdefault(id(left), [left, []])[1].append((op, Fraction(0), out, val))
    # the expressions compared: one per atom of the list (the atom itself, atom 2, atom 3); told apart by the inputs they mention
    byatom = {}
    for left, evs in per.values():
        vs = {m[1] for m in subnodes(left).values() if m[0] == 'var'}
        who = tuple(sorted({v[1] for v in vs if re.fullmatch(r'f[1-9][xyz]', v)}))
        if who in byatom:
            raise st.Untraceable('find_atoms_around compares two different numbers of the same atoms with dist')
        byatom[who] = (left, evs)
    if set(byatom) - {('1',), ('1', '2'), ('1', '3')} or ('1', '2') not in byatom or ('1', '3') not in byatom:
        raise st.Untraceable(f'find_atoms_around compares numbers that depend on the atoms {sorted(byatom)} with dist')
    # X `op` dist with X - dist in the place of X: regions of X relative to dist
    m_in = regions([(op, c, out) for op, c, out, _ in byatom[('1', '2')][1]], [Fraction(0)])
    m_out = regions([(op, c, out) for op, c, out, _ in byatom[('1', '3')][1]], [Fraction(0)])
    return {'node': byatom[('1', '2')][0], 'in': m_in, 'out': m_out}

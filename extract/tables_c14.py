"""
C14: the literal thresholds of SDM.collect_needed_symmetry / SDM.packer, read off shelxfile/shelx/sdm.py with `ast`
and written to lean/ShelxModel/Extracted/C14Consts.lean (Rat for the theorems, Float for the driver).

  packer:   `length < 0.2`                       -> dupLim
  collect:  `sdm_item.dist + 0.2`                -> window
            `dddd = 1.8`                         -> hh
            `dk > 0.001`                         -> eps
            `X.molindex < 1`                     -> molLow   (must be 1)
            `X.molindex > 6`  (may be absent)    -> molLimit : Option Int
"""
import ast
from fractions import Fraction
from pathlib import Path

import extract

REL = 'shelxfile/shelx/sdm.py'


def _num(node):
    if isinstance(node, ast.Constant) and isinstance(node.value, (int, float)) and not isinstance(node.value, bool):
        return node.value
    if isinstance(node, ast.UnaryOp) and isinstance(node.op, ast.USub):
        v = _num(node.operand)
        return None if v is None else -v
    return None


def _is_attr(node, name):
    return isinstance(node, ast.Attribute) and node.attr == name


def _render(c):
    def rat(x):
        return extract.lean_rat(x)

    def flt(x):
        return f'({float(x)!r} : Float)'
    lim = 'none' if c['molLimit'] is None else f'some {int(c["molLimit"])}'
    lines = [extract.HEADER, 'namespace Shelx.C14.Consts', '']
    for k in ('dupLim', 'window', 'hh', 'eps'):
        lines.append(f'def {k}R : Rat := {rat(c[k])}')
        lines.append(f'def {k}F : Float := {flt(c[k])}')
    lines.append(f'def molLow : Int := {int(c["molLow"])}')
    lines.append(f'def molLimit : Option Int := {lim}')
    lines += ['', 'end Shelx.C14.Consts', '']
    return '\n'.join(lines)


LAST_KNOWN = dict(dupLim=0.2, window=0.2, hh=1.8, eps=0.001, molLow=1, molLimit=6)


def _fallback(out):
    extract.write_if_changed(Path(out) / 'C14Consts.lean', _render(LAST_KNOWN))


@extract.extractor
def c14_consts(repo, out):
    tree = extract.parse(repo, REL)
    lost = []
    c = {}
    packer = extract.find(tree, 'SDM.packer')
    collect = extract.find(tree, 'SDM.collect_needed_symmetry')
    if packer is None or collect is None:
        _fallback(out)
        return [dict(props=['C14'], what='SDM.packer / SDM.collect_needed_symmetry not found in sdm.py')]
    # packer: comparisons `<something> < const` (accept `const > something`)
    dups = []
    for n in ast.walk(packer):
        if isinstance(n, ast.Compare) and len(n.ops) == 1:
            l, r = n.left, n.comparators[0]
            if isinstance(n.ops[0], (ast.Lt, ast.LtE)) and isinstance(_num(r), float):
                dups.append((_num(r), type(n.ops[0]).__name__))
            elif isinstance(n.ops[0], (ast.Gt, ast.GtE)) and isinstance(_num(l), float):
                dups.append((_num(l), 'Lt' if isinstance(n.ops[0], ast.Gt) else 'LtE'))
    if len(dups) == 1 and dups[0][1] == 'Lt':
        c['dupLim'] = dups[0][0]
    else:
        lost.append(dict(props=['C14'], what=f'packer: duplicate test `length < const` not recognised ({dups})'))
    # collect
    for n in ast.walk(collect):
        if isinstance(n, ast.BinOp) and isinstance(n.op, ast.Add):
            if _is_attr(n.left, 'dist') and _num(n.right) is not None:
                c['window'] = _num(n.right)
            elif _is_attr(n.right, 'dist') and _num(n.left) is not None:
                c['window'] = _num(n.left)
        if isinstance(n, ast.Assign) and len(n.targets) == 1 and isinstance(n.targets[0], ast.Name) and n.targets[0].id == 'dddd' \
                and _num(n.value) is not None:
            c['hh'] = _num(n.value)
        if isinstance(n, ast.Compare) and len(n.ops) == 1:
            l, r, op = n.left, n.comparators[0], n.ops[0]
            if _is_attr(l, 'molindex') and _num(r) is not None:
                if isinstance(op, ast.Lt):
                    c['molLow'] = _num(r)
                elif isinstance(op, ast.Gt):
                    c['molLimit'] = _num(r)
                elif isinstance(op, ast.GtE):
                    c['molLimit'] = _num(r) - 1
                elif isinstance(op, ast.LtE):
                    c['molLow'] = _num(r) + 1
            if isinstance(l, ast.Name) and l.id == 'dk' and isinstance(op, ast.Gt) and _num(r) is not None:
                c['eps'] = _num(r)
    c.setdefault('molLimit', None)
    missing = [k for k in ('dupLim', 'window', 'hh', 'eps', 'molLow') if k not in c]
    if missing:
        lost.append(dict(props=['C14'], what=f'collect_needed_symmetry/packer: constants not recognised: {missing}'))
        c = dict(LAST_KNOWN, **c)
    extract.write_if_changed(Path(out) / 'C14Consts.lean', _render(c))
    return lost


c14_consts.props = ['C14']
c14_consts.fallback = _fallback

"""
C14: the thresholds of SDM.collect_needed_symmetry / SDM.packer, written to lean/ShelxModel/Extracted/C14Consts.lean
(Rat for the theorems, Float for the driver).

  packer:   image suppressed iff an atom of its PART is nearer than   dupLim   (`length < 0.2`)
  collect:  entry iff  eps < dk <= dist + window                       (`dk > 0.001`, `sdm_item.dist + 0.2 >= dk`)
            for two hydrogens iff eps < dk <= hh                       (`dddd = 1.8`)
            only for molLow <= atom1.molindex [<= molLimit]            (`molindex < 1`; no upper limit in the tree today)

They are not read off the text of sdm.py: `probe_c14.py` (a separate interpreter that imports the package from the tree
under test) RUNS the two functions on symbolic numbers, records every comparison with the constant it compares against,
and establishes what each threshold does by running the real code in every cell of the partition they induce — see the
docstring there.  Any spelling of the same decisions gives the same table; a decision table of another shape is reported
as lost, never fitted.
"""
import json
import subprocess
import sys
from fractions import Fraction
from pathlib import Path

import extract

HERE = Path(__file__).resolve().parent
REAL = ('dupLim', 'window', 'hh', 'eps')
LAST_KNOWN = dict(dupLim=Fraction(1, 5), window=Fraction(1, 5), hh=Fraction(9, 5), eps=Fraction(1, 1000), molLow=1, molLimit=None)


def _render(c, notes=()):
    def rat(x):
        return f'({x.numerator} : Rat)' if x.denominator == 1 else f'(({x.numerator} : Rat) / {x.denominator})'

    def flt(x):
        return f'({x.numerator / x.denominator!r} : Float)'
    lim = 'none' if c['molLimit'] is None else f'some {int(c["molLimit"])}'
    lines = [extract.HEADER]
    lines += [f'-- {n}' for n in notes]
    lines += ['namespace Shelx.C14.Consts', '']
    for k in REAL:
        lines.append(f'def {k}R : Rat := {rat(c[k])}')
        lines.append(f'def {k}F : Float := {flt(c[k])}')
    lines.append(f'def molLow : Int := {int(c["molLow"])}')
    lines.append(f'def molLimit : Option Int := {lim}')
    lines += ['', 'end Shelx.C14.Consts', '']
    return '\n'.join(lines)


def _fallback(out):
    extract.write_if_changed(Path(out) / 'C14Consts.lean', _render(LAST_KNOWN))


def _lost(what):
    return dict(props=['C14'], what=what)


@extract.extractor
def c14_consts(repo, out):
    p = subprocess.run([sys.executable, str(HERE / 'probe_c14.py'), '--repo', str(repo)],
                       stdout=subprocess.PIPE, stderr=subprocess.PIPE, text=True, timeout=300,
                       env={'PATH': '/usr/bin:/bin', 'PYTHONDONTWRITEBYTECODE': '1', 'PYTHONHASHSEED': '0'})
    try:
        if p.returncode != 0:
            raise ValueError(f'exit {p.returncode}: {p.stderr[-400:]}')
        r = json.loads(p.stdout[p.stdout.index('{'):])
    except ValueError as e:
        _fallback(out)
        return [_lost(f'probe_c14.py gave no result: {e}')]
    lost = [_lost(w) for w in r.get('lost', [])]
    got = r.get('consts', {})
    notes = [n for n in r.get('notes', []) if not n.endswith('runs of the real code')]
    c = {}
    for k in REAL:
        if got.get(k) is not None:
            c[k] = Fraction(got[k])
    for k in ('molLow', 'molLimit'):
        if k in got:
            c[k] = got[k]
    # hh = null with no lost message: the probe established that no pair of hydrogens reaches an H...H window (note says why)
    unobservable = 'hh' in got and got['hh'] is None
    missing = [k for k in LAST_KNOWN if k not in c and not (k == 'hh' and unobservable)]
    if missing and not lost:
        lost.append(_lost(f'collect_needed_symmetry/packer: thresholds not established: {missing}'))
    c = dict(LAST_KNOWN, **c)
    extract.write_if_changed(Path(out) / 'C14Consts.lean', _render(c, notes))
    return lost


c14_consts.props = ['C14']
c14_consts.fallback = _fallback

"""
C13 — what is read off the source for the shortest-distance matrix (DESIGN 3.1):

  shelxfile/shelx/sdm.py  SDM.calc_sdm      the numeric thresholds of the per-pair loop
                                              (5.3 cut, 0.0001 identity bias, 0.01 coincidence limit, 1.2 bond
                                              factor, 0.5 wrap shift, 1000000 start value, 0.0 "no bond" limit)
                                            and the PART/hydrogen condition of the bond criterion, translated
                                            *as an expression* to a Lean Bool function (`bondAllowed`), so that
                                            `covalent_iff_rule` is re-proved about what the code says now
  shelxfile/misc/elements.py element2cov     covalent radii -> `covRadius : List (String × Rat)`
  shelxfile/atoms/atom.py    is_hydrogen     the element set that counts as hydrogen -> `hydrogenElements`

Writes lean/ShelxModel/Extracted/SdmC13.lean. Pure `ast`, nothing is imported or executed.
"""
from __future__ import annotations

import ast
from fractions import Fraction
from pathlib import Path

import extract
from extract import HEADER, find, lean_list, lean_rat, lean_str, parse, write_if_changed

PROPS = ['C13']
OUT = 'SdmC13.lean'

# last known shape (used when the source no longer fits the recogniser, so that the package still builds;
# the lost-message makes the check report the broken tie)
LAST = dict(cut='5.3', bias='0.0001', eps='0.01', factor='1.2', half='0.5', big='1000000', nobond='0.0',
            bond='(((!h1) && (!h2)) && (decide (p1 * p2 = 0))) || (decide (p1 = p2))',
            hyd=['H', 'D', 'T'])


def _num(node):
    if isinstance(node, ast.Constant) and isinstance(node.value, (int, float)) and not isinstance(node.value, bool):
        return node.value
    if isinstance(node, ast.UnaryOp) and isinstance(node.op, ast.USub):
        v = _num(node.operand)
        return None if v is None else -v
    return None


def _attr_path(node):
    """a.b.c -> ['a','b','c'] (None if not a pure attribute chain)"""
    out = []
    while isinstance(node, ast.Attribute):
        out.append(node.attr)
        node = node.value
    if isinstance(node, ast.Name):
        out.append(node.id)
        return out[::-1]
    return None


class NoFit(Exception):
    pass


def bond_expr(node, atoms=('atom1', 'atom2', 'at1', 'at2')) -> str:
    """the test of the bond criterion's `if` as a Lean Bool expression over h1 h2 : Bool, p1 p2 : Int"""
    if isinstance(node, ast.BoolOp):
        op = ' && ' if isinstance(node.op, ast.And) else ' || '
        # Python's and/or are left-nested n-ary; Lean's && and || associate to the left as well
        parts = [bond_expr(v) for v in node.values]
        s = parts[0]
        for p in parts[1:]:
            s = f'({s}{op}{p})'
        return s
    if isinstance(node, ast.UnaryOp) and isinstance(node.op, ast.Not):
        return f'(!{bond_expr(node.operand)})'
    if isinstance(node, ast.Compare) and len(node.ops) == 1:
        rel = {ast.Eq: '=', ast.NotEq: '≠', ast.Lt: '<', ast.LtE: '≤', ast.Gt: '>', ast.GtE: '≥'}.get(type(node.ops[0]))
        if rel is None:
            raise NoFit(ast.dump(node))
        return f'(decide ({int_expr(node.left)} {rel} {int_expr(node.comparators[0])}))'
    p = _attr_path(node)
    if p and p[-1] in ('ishydrogen', 'is_hydrogen') and len(p) >= 2 and p[-2] in atoms:
        return 'h1' if p[-2] in ('atom1', 'at1') else 'h2'
    raise NoFit(ast.dump(node))


def int_expr(node) -> str:
    v = _num(node)
    if isinstance(v, int):
        return f'({v} : Int)'
    if isinstance(node, ast.BinOp) and isinstance(node.op, (ast.Mult, ast.Add, ast.Sub)):
        op = {ast.Mult: '*', ast.Add: '+', ast.Sub: '-'}[type(node.op)]
        return f'({int_expr(node.left)} {op} {int_expr(node.right)})'
    p = _attr_path(node)
    if p and p[-2:] == ['part', 'n'] and len(p) >= 3 and p[-3] in ('atom1', 'atom2', 'at1', 'at2'):
        return 'p1' if p[-3] in ('atom1', 'at1') else 'p2'
    raise NoFit(ast.dump(node))


def read_sdm(repo: Path):
    tree = parse(repo, 'shelxfile/shelx/sdm.py')
    fn = find(tree, 'SDM.calc_sdm')
    if fn is None:
        raise NoFit('SDM.calc_sdm not found')
    got = {}
    # the operator loop: `for n, symop in enumerate(...symmcards)` nested in the two atom loops
    oploop = None
    for node in ast.walk(fn):
        if isinstance(node, ast.For) and isinstance(node.target, ast.Tuple) and 'symmcards' in ast.dump(node.iter) \
                and any(isinstance(x, ast.Continue) for x in ast.walk(node)):
            oploop = node
    if oploop is None:
        raise NoFit('operator loop of calc_sdm not found')
    for node in ast.walk(oploop):
        # if dk > CUT: continue
        if isinstance(node, ast.If) and len(node.body) == 1 and isinstance(node.body[0], ast.Continue) \
                and isinstance(node.test, ast.Compare) and isinstance(node.test.ops[0], ast.Gt):
            got['cut'] = _num(node.test.comparators[0])
        # (x > EPS) and (mind >= x)
        if isinstance(node, ast.If) and isinstance(node.test, ast.BoolOp) and isinstance(node.test.op, ast.And):
            for v in node.test.values:
                if isinstance(v, ast.Compare) and isinstance(v.ops[0], ast.Gt) and _num(v.comparators[0]) is not None:
                    got['eps'] = _num(v.comparators[0])
        # identity bias: `if n: dk += BIAS`  or  `x = dk + BIAS if n else dk`
        if isinstance(node, ast.If) and isinstance(node.test, ast.Name) and len(node.body) == 1 \
                and isinstance(node.body[0], ast.AugAssign) and isinstance(node.body[0].op, ast.Add):
            got['bias'] = _num(node.body[0].value)
        if isinstance(node, ast.IfExp) and isinstance(node.test, ast.Name) and isinstance(node.body, ast.BinOp) \
                and isinstance(node.body.op, ast.Add):
            got['bias'] = _num(node.body.right)
        # wrap shift: `... + HALF` in the assignment of D and `v - HALF`
        if isinstance(node, ast.Assign) and isinstance(node.value, ast.BinOp) and isinstance(node.value.op, ast.Add) \
                and _num(node.value.right) is not None and 'prime_array' in ast.dump(node.value.left):
            got['half'] = _num(node.value.right)
        if isinstance(node, ast.ListComp) and isinstance(node.elt, ast.BinOp) and isinstance(node.elt.op, ast.Sub) \
                and _num(node.elt.right) is not None:
            got['half2'] = _num(node.elt.right)
    for node in ast.walk(fn):
        if isinstance(node, ast.Assign) and len(node.targets) == 1 and isinstance(node.targets[0], ast.Name):
            name = node.targets[0].id
            if name == 'mind' and _num(node.value) is not None:
                got['big'] = _num(node.value)
            if name == 'dddd':
                if isinstance(node.value, ast.BinOp) and isinstance(node.value.op, ast.Mult):
                    f = _num(node.value.right) if _num(node.value.right) is not None else _num(node.value.left)
                    if f is not None and 'radius' in ast.dump(node.value):
                        got['factor'] = f
                elif _num(node.value) is not None:
                    got['nobond'] = _num(node.value)
        # the bond criterion: the `if` whose body assigns dddd from the radii
        if isinstance(node, ast.If) and any(isinstance(s, ast.Assign) and 'radius' in ast.dump(s) for s in node.body):
            got['bond'] = bond_expr(node.test)
    missing = [k for k in ('cut', 'bias', 'eps', 'factor', 'half', 'half2', 'big', 'nobond', 'bond') if got.get(k) is None]
    if missing:
        raise NoFit('calc_sdm: not recognised: ' + ', '.join(missing))
    if got['half'] != got['half2']:
        raise NoFit(f'calc_sdm: wrap adds {got["half"]} and subtracts {got["half2"]}')
    return {k: (v if k == 'bond' else repr(v)) for k, v in got.items()}


def read_radii(repo: Path):
    tree = parse(repo, 'shelxfile/misc/elements.py')
    for node in tree.body:
        if isinstance(node, ast.Assign) and any(isinstance(t, ast.Name) and t.id == 'element2cov' for t in node.targets):
            d = ast.literal_eval(node.value)
            src = {}
            for k, v in zip(node.value.keys, node.value.values):
                src[ast.literal_eval(k)] = ast.unparse(v)
            return [(k, src[k]) for k in d]
    raise NoFit('element2cov not found')


def read_hydrogen(repo: Path):
    tree = parse(repo, 'shelxfile/atoms/atom.py')
    fn = find(tree, 'Atom.is_hydrogen')
    if fn is None:
        raise NoFit('Atom.is_hydrogen not found')
    for node in ast.walk(fn):
        if isinstance(node, ast.Compare) and isinstance(node.ops[0], ast.In) and 'element' in ast.dump(node.left):
            return sorted(ast.literal_eval(node.comparators[0]))
    raise NoFit('Atom.is_hydrogen: element set not recognised')


def render(c, radii, hyd) -> str:
    L = [HEADER, 'namespace Shelx.C13.Extracted', '']
    L.append('/-! thresholds of `SDM.calc_sdm`, exact values of the decimal literals in the source -/')
    for lean, key, doc in [('cutQ', 'cut', 'distances above this are not considered (`if dk > …: continue`)'),
                           ('biasQ', 'bias', 'added to the distance of every operator but the first'),
                           ('epsQ', 'eps', 'distances up to this are treated as the atom itself'),
                           ('factorQ', 'factor', 'bond if distance < factor * (r1 + r2)'),
                           ('halfQ', 'half', 'the shift of the wrap `D + ½ - floor(D + ½) - ½`'),
                           ('bigQ', 'big', 'start value of the running minimum'),
                           ('nobondQ', 'nobond', 'limit used where the PART/hydrogen condition forbids a bond')]:
        L.append(f'/-- {doc} -/')
        L.append(f'def {lean} : Rat := {lean_rat(c[key])}')
    L.append('')
    L.append('/-- the PART/hydrogen condition of the bond criterion, translated from the source expression -/')
    L.append('def bondAllowed (h1 h2 : Bool) (p1 p2 : Int) : Bool :=')
    L.append('  ' + c['bond'])
    L.append('')
    L.append('/-- `element2cov` (insertion order) -/')
    L.append('def covRadius : List (String × Rat) :=')
    L.append('  ' + lean_list(f'({lean_str(k)}, {lean_rat(v)})' for k, v in radii))
    L.append('')
    L.append('/-- the element symbols `Atom.is_hydrogen` accepts -/')
    L.append('def hydrogenElements : List String := ' + lean_list(lean_str(h) for h in hyd))
    L.append('')
    L.append('end Shelx.C13.Extracted')
    return '\n'.join(L) + '\n'


@extract.extractor
def tables_c13(repo: Path, out: Path):
    lost = []
    try:
        c = read_sdm(repo)
    except (NoFit, OSError, SyntaxError, ValueError, IndexError, AttributeError) as e:
        lost.append(dict(props=PROPS, what=f'sdm.py thresholds/bond criterion no longer fit the recogniser: {e}'))
        c = dict(LAST)
    try:
        radii = read_radii(repo)
        for k, v in radii:
            Fraction(v)
    except (NoFit, OSError, SyntaxError, ValueError) as e:
        lost.append(dict(props=PROPS, what=f'elements.py covalent radii not readable: {e}'))
        radii = []
    try:
        hyd = read_hydrogen(repo)
    except (NoFit, OSError, SyntaxError, ValueError) as e:
        lost.append(dict(props=PROPS, what=f'atom.py hydrogen test not readable: {e}'))
        hyd = LAST['hyd']
    write_if_changed(out / OUT, render(c, radii, hyd))
    return lost


def _fallback(out: Path):
    write_if_changed(out / OUT, render(dict(LAST), [], LAST['hyd']))


tables_c13.props = PROPS
tables_c13.fallback = _fallback

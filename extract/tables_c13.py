"""
C13 — what is read off the tree under test for the shortest-distance matrix (DESIGN 3.1), and written to
lean/ShelxModel/Extracted/SdmC13.lean:

  SDM.calc_sdm       the numeric thresholds of the per-pair loop (5.3 cut, 0.0001 identity bias, 0.01 coincidence limit,
                     1.2 bond factor, 0.5 wrap shift, 1000000 start value, 0.0 "no bond" limit) and the PART/hydrogen
                     condition of the bond criterion as a Lean Bool function (`bondAllowed`), so that
                     `covalent_iff_rule` is re-proved about what the code decides now
  Atom.radius        covalent radius per element symbol -> `covRadius : List (String × Rat)`
  Atom.is_hydrogen   the element symbols that count as hydrogen -> `hydrogenElements`

The reading is SEMANTIC: `probe_c13.py` (a separate interpreter that imports the package from the tree under test) runs
`SDM(shx).calc_sdm()` on small structures with symbolic coordinates, radii and PART numbers and recognises every
constant by what it is compared with and what that comparison decides (see the docstring there). The spelling of
sdm.py — helper methods, named constants, renamed locals, loops, early returns, merged conditions — does not matter.
What no longer has the expected meaning is reported as lost and the last known value is written so that the package
still builds; nothing is guessed.
"""
from __future__ import annotations

import json
import subprocess
import sys
from fractions import Fraction
from pathlib import Path

import extract
from extract import HEADER, lean_list, lean_rat, lean_str, write_if_changed

HERE = Path(__file__).resolve().parent
PROPS = ['C13']
OUT = 'SdmC13.lean'

# last known shape (used when the tree no longer has the expected meaning, so that the package still builds;
# the lost-message makes the check report the broken tie)
LAST = dict(cut='5.3', bias='0.0001', eps='0.01', factor='1.2', half='0.5', big='1000000', nobond='0.0',
            bond='(((!h1) && (!h2)) && (decide (p1 * p2 = 0))) || (decide (p1 = p2))',
            hyd=['D', 'H', 'T'])
KEYS = ('cut', 'bias', 'eps', 'factor', 'half', 'big', 'nobond')


def run_probe(repo: Path) -> dict:
    p = subprocess.run([sys.executable, str(HERE / 'probe_c13.py'), '--repo', str(repo)],
                       stdout=subprocess.PIPE, stderr=subprocess.PIPE, text=True, timeout=300,
                       env={'PATH': '/usr/bin:/bin', 'PYTHONDONTWRITEBYTECODE': '1', 'PYTHONHASHSEED': '0'})
    if p.returncode != 0:
        return dict(lost=[f'probe_c13.py failed: {p.stderr[-400:]}'])
    try:
        return json.loads(p.stdout[p.stdout.index('{'):])
    except ValueError:
        return dict(lost=[f'probe_c13.py printed no result: {p.stdout[-200:]} {p.stderr[-200:]}'])


def render(c, radii, hyd) -> str:
    L = [HEADER, 'namespace Shelx.C13.Extracted', '']
    L.append('/-! thresholds of `SDM.calc_sdm`, exact values of the decimal constants the code compares with -/')
    for lean, key, doc in [('cutQ', 'cut', 'distances above this are not considered (`if dk > …: continue`)'),
                           ('biasQ', 'bias', 'added to the distance of every operator but the first'),
                           ('epsQ', 'eps', 'distances up to this are treated as the atom itself'),
                           ('factorQ', 'factor', 'bond if distance < factor * (r1 + r2)'),
                           ('halfQ', 'half', 'the shift of the wrap `D + ½ - floor(D + ½) - ½`'),
                           ('bigQ', 'big', 'start value of the running minimum'),
                           ('nobondQ', 'nobond', 'limit used where the PART/hydrogen condition forbids a bond')]:
        if key == 'big' and c.get('note'):
            doc += ' (' + c['note'] + ')'
        L.append(f'/-- {doc} -/')
        L.append(f'def {lean} : Rat := {lean_rat(c[key])}')
    L.append('')
    L.append('/-- the PART/hydrogen condition of the bond criterion: the decision tree of the tests the code makes on the PART\n'
             '    numbers, per combination of hydrogen flags (traced by running the code) -/')
    L.append('def bondAllowed (h1 h2 : Bool) (p1 p2 : Int) : Bool :=')
    L.append('  ' + c['bond'])
    L.append('')
    L.append('/-- `Atom.radius` of a fresh atom, per element symbol of at most two letters that has one -/')
    L.append('def covRadius : List (String × Rat) :=')
    L.append('  ' + lean_list(f'({lean_str(k)}, {lean_rat(v)})' for k, v in radii))
    L.append('')
    L.append('/-- the element symbols of at most two letters `Atom.is_hydrogen` accepts -/')
    L.append('def hydrogenElements : List String := ' + lean_list(lean_str(h) for h in hyd))
    L.append('')
    L.append('end Shelx.C13.Extracted')
    return '\n'.join(L) + '\n'


@extract.extractor
def tables_c13(repo: Path, out: Path):
    r = run_probe(Path(repo))
    lost = [dict(props=PROPS, what=f'sdm: {w}') for w in r.get('lost', [])]
    c = dict(LAST)
    got = r.get('consts')
    try:
        if got is not None:
            for k in KEYS:
                Fraction(got[k])
            c.update({k: got[k] for k in KEYS})
            if r.get('note'):
                c['note'] = str(r['note']).replace('-/', '- /')
        elif not lost:
            raise KeyError('consts')
        if r.get('bond'):
            c['bond'] = r['bond']
        elif not lost:
            raise KeyError('bond')
        radii = [(str(k), str(v)) for k, v in r.get('radii', [])]
        for _, v in radii:
            Fraction(v)
        hyd = [str(h) for h in r['hyd']] if 'hyd' in r else LAST['hyd']
        if ('radii' not in r or 'hyd' not in r) and not lost:
            raise KeyError('radii / hyd')
    except (KeyError, ValueError, TypeError) as e:
        lost.append(dict(props=PROPS, what=f'sdm: result of probe_c13.py not usable: {type(e).__name__}: {e}'))
        c, radii, hyd = dict(LAST), [], LAST['hyd']
    write_if_changed(out / OUT, render(c, radii, hyd))
    return lost


def _fallback(out: Path):
    write_if_changed(out / OUT, render(dict(LAST), [], LAST['hyd']))


tables_c13.props = PROPS
tables_c13.fallback = _fallback
